#!/usr/bin/env python3
"""Regenerates /verif/MANIFEST.json from tools/stages.py and tools/claims.py."""
import json, os, sys
ROOT = os.path.dirname(os.path.dirname(os.path.abspath(__file__)))
sys.path.insert(0, os.path.join(ROOT, "tools"))
from stages import STAGES, LEVELS
from claims import CLAIMS, PENDING

ids = ["C%02d" % i for i in range(1, 21)]
checks, na = [], []
for pid in ids:
    if pid in STAGES and pid in CLAIMS:
        c = dict(CLAIMS[pid])
        fg = [st["env"]["VERIF_FUZZ_TEST"] for st in STAGES[pid] if st.get("fuzz") and st.get("env", {}).get("VERIF_FUZZ_TEST")]
        if fg:
            c["text"] += (" Thorough tier, in addition: Go's native coverage-guided fuzzer drives the choice sequences of the same rapid generators (FuzzGen over %s; rapid.MakeFuzz), "
                          "so coverage feedback from the instrumented library steers the structured generators; the oracle is unchanged, a crasher is a corpus file that replays with ./check %s replay." % (", ".join(fg), pid))
        checks.append({
            "property_id": pid,
            "quick_cmd": "./check %s quick" % pid,
            "thorough_cmd": "./check %s thorough" % pid,
            "evidence_file": "/verif/evidence/%s.json" % pid,
            "replay_cmd_template": "./check %s replay {path}" % pid,
            "engine": "props",
            "level_claimed": {"category": LEVELS[pid], "text": c["text"], "design_ref": "DESIGN.md section 4, " + pid},
            "level_note": c["note"],
            "technique": c["technique"],
        })
    else:
        na.append({"property_id": pid, "reason": PENDING.get(pid, "check not built yet in this session; see DESIGN.md section 8 (build order)")})

m = {
    "version": 1,
    "setup_cmd": "./setup.sh",
    "hooks": {
        "guard": "verif",
        "enable": "go build tag: the harness builds /repo via a replace directive with `go1.26.8 test -c -tags verif`",
        "baseline_off_cmd": "cd /repo && GOFLAGS=-mod=mod GOPROXY=off GOSUMDB=off go test -vet=off -count=1 ./... && cd internal/thirdparty && GOFLAGS=-mod=mod GOPROXY=off GOSUMDB=off go test -vet=off -count=1 ./...",
        "source_commits": [l.strip() for l in open(os.path.join(ROOT, "tools", "hook_commits.txt")) if l.strip()],
        "add_only": True,
    },
    "engines": [{
        "name": "props", "path": "/verif/harness",
        "serves_properties": [c["property_id"] for c in checks],
        "kind_free_text": "Go test binary (go1.26.8): pgregory.net/rapid v1.3.0 generators and state machines, exhaustive enumerations, testing/synctest virtual time, native go fuzzing in the thorough tier; oracles from the independent reference codec in harness/ref; driven by /verif/check",
    }],
    "checks": checks,
    "notes": "Property-based testing and fuzzing only. ./check <ID> quick|thorough|replay <path>. Exit 2 = inconclusive (build failure, watchdog), never reported as a violation. Known findings: /verif/known_findings.json.",
    "not_applicable": na,
}
json.dump(m, open(os.path.join(ROOT, "MANIFEST.json"), "w"), indent=1)
print("claimed:", [c["property_id"] for c in checks], "not yet:", [n["property_id"] for n in na])
