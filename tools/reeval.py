#!/usr/bin/env python3
"""Re-run the quick check of every stored seeded change against the current checks.

  VERIF_REPO=<scratch clone at /repo HEAD> tools/reeval.py <name> [<name>...]

For each seeded/<name>/patch.diff that still applies to the clone: apply, run ./check <ID> quick, undo, and
append the outcome to meta.json ("final_reeval"). Patches that no longer apply (the library moved on under
them: later fix: commits) are listed and left with their last recorded result.
"""
import json, os, subprocess, sys, time
ROOT = os.path.dirname(os.path.dirname(os.path.abspath(__file__)))
REPO = os.environ["VERIF_REPO"]
ENV = dict(os.environ, GOFLAGS="-mod=mod", GOPROXY="off", GOSUMDB="off",
           VERIF_REPLAY_DIR=os.path.join(ROOT, ".work", "seed-replays"),
           VERIF_EVIDENCE_DIR=os.path.join(ROOT, ".work", "seed-evidence-" + os.path.basename(REPO)))
def sh(cmd, cwd=None, timeout=3600):
    p = subprocess.run(cmd, shell=True, cwd=cwd, env=ENV, stdout=subprocess.PIPE, stderr=subprocess.STDOUT, text=True, timeout=timeout)
    return p.returncode, p.stdout
head = sh("git -C %s rev-parse --short HEAD" % REPO)[1].strip()
for name in sys.argv[1:]:
    d = os.path.join(ROOT, "seeded", name)
    pid = name.split("-")[0]
    patch = os.path.join(d, "patch.diff")
    sh("git -C %s reset -q --hard HEAD" % REPO)
    rc, out = sh("git -C %s apply %s" % (REPO, patch))
    if rc != 0:
        print("%s NOAPPLY" % name, flush=True)
        continue
    rc, out = sh("go build ./...", cwd=REPO)
    if rc != 0:
        sh("git -C %s reset -q --hard HEAD" % REPO)
        print("%s NOBUILD" % name, flush=True)
        continue
    t0 = time.time()
    rc, out = sh("./check %s quick" % pid, cwd=ROOT)
    sh("git -C %s reset -q --hard HEAD" % REPO)
    line = [l for l in out.splitlines() if l.startswith(("VIOLATION", "OK ", "INCONCLUSIVE"))]
    mp = os.path.join(d, "meta.json")
    m = json.load(open(mp))
    m["final_reeval"] = {"repo_head": head, "at": time.strftime("%Y-%m-%d %H:%M:%S"), "check": pid, "exit": rc,
                         "wall_s": round(time.time() - t0, 1), "line": line[-1] if line else out[-200:]}
    json.dump(m, open(mp, "w"), indent=1)
    print("%s %s exit=%d %.0fs" % (name, pid, rc, time.time() - t0), flush=True)
