#!/usr/bin/env python3
"""Print the prompt given to a fresh sub-agent for one property in a round of seeded changes.

  tools/seedprompt.py <ID> <round> <worktree> <outdir>

The agent gets: the property's text (properties.jsonl: title, statement, and the why_tests_cant field), its own scratch
worktree of /repo, and one line per change that earlier agents already delivered for this property (those lines describe
changes to nhooyr/websocket, not anything in /verif). Nothing about the checks is passed on.
"""
import json, os, sys

ROOT = os.path.dirname(os.path.dirname(os.path.abspath(__file__)))
pid, rnd, wt, out = sys.argv[1:5]
prop = [json.loads(l) for l in open(os.path.join(ROOT, "properties.jsonl")) if json.loads(l)["id"] == pid][0]
ann = json.load(open(os.path.join(ROOT, "seeded", "annotations.json")))
taken = [(k, v) for k, v in sorted(ann.items()) if k.split("-")[0] == pid]

FOCUS = {
    "11": """This is a SHORT round with a TIME LIMIT: deliver ONE change only (directory ...-r11-1) and finish within about 25 minutes of
work; no remarks file unless you stumble over something in the unchanged library. The change must contradict a clause of
THIS property's text directly, observably through the API or on the wire (name the clause in notes.md) - a change that
only breaks some other guarantee of the library does not count. Prefer what no earlier round touched: look at the list
of taken ideas, find the source file, function or code path behind this property that NONE of them modified, and plant the
change there; or a change that shows only under a combination nobody lists: a particular role AND a particular
compression agreement AND a particular size; the third message but not the second; an error followed by a retry; two
features used in one call sequence. The best changes are those where the obvious test (one connection, one message,
default options, the library talking to itself) stays green.""",
    "10": """This is a SHORT round with a TIME LIMIT: deliver ONE change only (directory ...-r10-1) and finish within about 30 minutes of
work; do not write a remarks file unless you stumble over something. Prefer what no earlier round touched: look at the
list of taken ideas, find the source file, function or code path of this property that NONE of them modified, and plant
the change there; or a change whose effect shows only on the SECOND use of something (second message, second connection,
second call after an error, a value reused from a pool), or only for one of the two roles, or only through one of the
less used entry points (Reader/Writer instead of Read/Write, NetConn, wsjson, CloseRead, io.Copy, Ping from two
goroutines). The best changes are those where the obvious test (one connection, one message, default options, the
library talking to itself) stays green.""",
    "9": """This is a SHORT round: deliver ONE change only (directory ...-r9-1), the best you can find, and spend the rest of your effort
on the remarks file. For the change, prefer what no earlier round touched: look at the list of taken ideas, find the source
file, function or code path of this property that NONE of them modified, and plant the change there; or combine this
property's mechanism with a feature none of the taken ideas involved (compression, fragmentation, NetConn, wsjson,
CloseRead, subprotocols, the client role, the server role, Ping, a second connection, a reused options value).
For the remarks: read the property sentence by sentence and, for each clause, try to make the UNCHANGED library violate it
with a test you actually run (hostile or unusual peers, unusual but legal API use: zero-length buffers, nil or reused
arguments, calls in an unusual order, calls repeated, calls after an error, deadlines in the past, contexts already done,
two goroutines). Report every clause you could break, with input, expected, observed - and say clearly which clause of
the property text it contradicts.""",
    "8": """This round asks for kinds of change the earlier rounds under-used. Prefer, in this order:
  (a) FEATURE INTERACTIONS: a change that is invisible while each feature is used alone and shows only when two or three are
      combined (compression x fragmentation x control frames; NetConn x deadlines x ping; CloseRead x Close x a blocked
      writer; wsjson x read limit; context takeover x a message that failed; options or headers reused for a second
      connection; client role x server role differences);
  (b) THE SECOND USE AFTER A FAILURE: what the library does when the application carries on after an error as real programs
      do - retries the call, reads again, closes twice, uses a Reader/Writer handle again, runs a deferred Close, reuses
      a context, dials again with the same options - where the first failure left some state half-updated;
  (c) ARITHMETIC AND BOUNDARIES in places nobody has looked at: int vs int64 vs uint truncation, off-by-one at 125/126,
      4095/4096/4097, 65535/65536, 2^31, 2^63-1, counters that wrap, lengths of exactly 0, an empty but non-nil slice;
  (d) ORDERING: two statements swapped, a defer moved above or below another, a lock released one statement early, a flag
      set after instead of before the action it guards, a check hoisted out of a loop - the kind that only bites under
      one interleaving or one fault.
The remarks file matters as much as the two changes: while you read the code, write down EVERYTHING in the unchanged
library that sits badly with the property (with input, expected, observed, and a test you actually ran) - in the last
round such remarks uncovered two real defects.""",
    "7": """This round asks for kinds of change that earlier rounds under-used. Prefer, in this order:
  (a) TWO COOPERATING SITES: two small edits in different functions or files, each of which is harmless on its own (say so
      in notes.md and check it: with either edit alone your demonstration passes), that break the property only together;
  (b) A FAULT AT ONE PARTICULAR POINT: the transport returning an error or a short read/write at one specific moment
      (after the header but before the payload of a particular kind of frame, in the middle of a flush, during the close
      handshake), after which the library's recovery or clean-up path does the wrong thing;
  (c) A LONG OR STATEFUL HISTORY: something that only goes wrong on the N-th message, after a counter wraps, after a buffer
      has been grown/shrunk/pooled and reused, after an earlier call failed or was cancelled, or after options were reused
      for a second connection;
  (d) A REFACTORING SLIP: the kind of change a maintainer makes when tidying up (hoisting a check, merging two branches,
      replacing a helper with a standard-library call that differs in one edge case, changing a `<` to `<=`, reordering
      a defer, caching a value that may change) and that review would wave through.""",
}

print("""You are helping to evaluate how good a verification harness is. You will NOT see that harness. Your job is to plant
realistic bugs in a Go library so that we can find out whether the harness notices them.

The library is nhooyr.io/websocket (a minimal Go WebSocket library: RFC 6455 framing, handshake, close handshake,
ping/pong, permessage-deflate, a net.Conn adapter). You have your own scratch git worktree of it at

    %(wt)s

Work ONLY inside that directory and inside your output directory %(out)s . Never touch /repo or /verif, never read
anything under /verif. Shell environment for every go command (no network in this sandbox):

    export GOFLAGS=-mod=mod GOPROXY=off GOSUMDB=off GOTOOLCHAIN=local

The property under attack (%(pid)s — %(title)s):

    %(statement)s

Why the library's own tests do not settle it:

    %(why)s

TASK. Deliver TWO different changes to the library's non-test source (each independent of the other, each a patch against
the worktree's HEAD) that BREAK this property while
  * the package still compiles (`go build ./...` and `go vet` need not be clean, but it must build),
  * the library's existing test suite still passes, unedited: `go test -vet=off -count=1 ./...` in the worktree, run it at
    least three times with your change applied (some tests are timing-sensitive; a change that makes them flaky is not
    acceptable),
  * the change looks like something a maintainer could plausibly commit (a refactoring slip, an optimisation, a
    "simplification", a misread RFC clause) — not a sabotage such as `if len(p) == 1337`,
  * the breakage NEEDS SOMETHING SPECIFIC TO MANIFEST: a particular interleaving, a crash or transport fault at a
    particular point, a multi-step sequence of operations, an unusual (but legal, or hostile-peer) input, a boundary value,
    or two cooperating sites that each look fine alone. A change that ordinary use would expose at once is worthless.

%(focus)s

For each change also deliver a DEMONSTRATION: a Go test file (package websocket or websocket_test, placed at the top level
of the worktree while you try it) with one or more `Test...` functions that PASS on the unchanged HEAD and FAIL with your
change, deterministically or nearly so (no tight real-time margins: if you need timeouts make the margins generous; the
demo must finish within 60 s). It may use the library's internal test helpers (`internal/test/wstest`, `xsync`, ...),
raw `net.Pipe`s with hand-written frames, `httptest`, goroutines — whatever it takes. It must not depend on any other file
you add.

These ideas were already delivered by earlier agents for this property — they are TAKEN; do not repeat them or close
variations of them (same mechanism at the same site):

%(taken)s

OUTPUT. For change k in {1, 2} create the directory %(out)s/%(pid)s-r%(rnd)s-k/ containing
  * patch.diff — `git diff` of the library source only (no test files), applying cleanly to the worktree's HEAD with
    `git apply`;
  * demo_test.go — the demonstration;
  * notes.md — what the change is, why it breaks the property, exactly what it needs in order to manifest, why the existing
    tests do not notice, and the commands you ran with their results (demo on HEAD: pass; demo with patch: fail; suite with
    patch: 3x pass).
Before you finish: `git -C %(wt)s checkout -- .` and remove any files you added to the worktree, so that it is clean at
HEAD. NEVER use `git stash` (all worktrees share one stash: other agents would pop your changes); to set a change aside use
`git diff > /some/file; git checkout -- .` and `git apply /some/file`. Verify each delivered patch.diff applies to the clean worktree with `git apply --check`.
If, while reading the code, you notice something in the UNCHANGED library that already violates the property, describe it
in a file %(out)s/%(pid)s-r%(rnd)s-remarks.md (input, expected, observed) — that is valuable too.
Your final message should be a three-line summary per change.""" % dict(
    wt=wt, out=out, pid=pid, rnd=rnd, title=prop.get("title", ""), statement=prop["statement"],
    why=prop.get("why_tests_cant", prop.get("why_tests_cannot", "")),
    focus=FOCUS.get(rnd, ""),
    taken="\n".join("  - %s: %s (needs: %s)" % (k, v.get("summary", ""), v.get("needs", "")) for k, v in taken) or "  (none)"))
