#!/usr/bin/env python3
"""Evaluate one seeded change produced by a sub-agent.

  tools/seedeval.py <seed-name> <dir-with-patch.diff,demo_test.go,notes.md> <worktree> <ID> [<ID>...] [--tier quick|thorough] [--keep]

1. In the scratch worktree: the demo passes on HEAD, the patch applies and builds, the
   repository's own suite passes with it (3 runs), the demo fails with it.
2. Applies the patch to /repo (git apply), runs ./check <ID> <tier> for every ID given
   (evidence and replays redirected to .work), and undoes it (git checkout -- .).
3. Stores patch.diff, the demonstration, the agent's notes and meta.json under /verif/seeded/<seed-name>/.
"""
import json, os, shutil, subprocess, sys, time

ROOT = os.path.dirname(os.path.dirname(os.path.abspath(__file__)))
REPO = os.environ.get("VERIF_REPO", "/repo")
ENV = dict(os.environ, GOFLAGS="-mod=mod", GOPROXY="off", GOSUMDB="off",
           VERIF_REPLAY_DIR=os.path.join(ROOT, ".work", "seed-replays"),
           VERIF_EVIDENCE_DIR=os.path.join(ROOT, ".work", "seed-evidence"))


def sh(cmd, cwd=None, timeout=1800):
    p = subprocess.run(cmd, shell=True, cwd=cwd, env=ENV, stdout=subprocess.PIPE, stderr=subprocess.STDOUT, text=True, errors="replace", timeout=timeout)
    return p.returncode, p.stdout


def main():
    a = sys.argv[1:]
    tier = "quick"
    if "--tier" in a:
        i = a.index("--tier")
        tier = a[i + 1]
        del a[i:i + 2]
    name, src, wt, ids = a[0], a[1], a[2], a[3:]
    patch = os.path.join(src, "patch.diff")
    demo = os.path.join(src, "demo_test.go")
    meta = {"seed": name, "properties_checked": ids, "tier": tier, "at": time.strftime("%Y-%m-%d %H:%M:%S"), "ran": []}
    def note(k, v):
        meta[k] = v
        print("%s: %s" % (k, v), flush=True)
    # --- 1. confirm in the scratch worktree ---
    rc, out = sh("git status --porcelain --untracked-files=no", cwd=wt)
    if out.strip():
        sh("git checkout -- .", cwd=wt)
    demo_dst = os.path.join(wt, "zz_seed_demo_test.go")
    pkg = open(demo).read().split("package ", 1)[1].split()[0]
    shutil.copyfile(demo, demo_dst)
    try:
        names = subprocess.run("grep -oE '^func (Test[A-Za-z0-9_]+)' %s | awk '{print $2}' | paste -sd'|'" % demo_dst, shell=True, stdout=subprocess.PIPE, text=True).stdout.strip()
        run = "go test -vet=off -count=1 -run '^(%s)$' -timeout 180s ." % names
        rc0, out0 = sh(run, cwd=wt)
        for _ in range(3):
            # the repository's own TestMain counts goroutines after the tests and fails about once in 50 runs on the
            # unchanged tree when the machine is busy ("PASS" followed by "goroutine leak detected"): that is not the demo
            if rc0 == 0 or not ("\nPASS\n" in "\n" + out0 and "goroutine leak detected" in out0):
                break
            rc0, out0 = sh(run, cwd=wt)
        if rc0 != 0 and "\nPASS\n" in "\n" + out0 and "--- FAIL" not in out0 and "goroutine leak detected" in out0:
            # every test of the demo passed; only the repository's TestMain census objects (goroutines of the
            # demo's own httptest handlers still winding down after its 2 s of patience)
            meta["head_note"] = "demo tests PASS on HEAD; the repository's TestMain goroutine census then failed the binary"
            rc0 = 0
        note("demo_passes_on_head", rc0 == 0)
        if rc0 != 0:
            print(out0[-1500:])
        meta["ran"].append(run + " (HEAD) -> rc=%d" % rc0)
        # patch.orig.diff (if present): the agent's patch against the HEAD of its worktree; patch.diff is then the same
        # change carried over by hand to the current /repo HEAD, whose later fix: commits touch the same lines
        orig = os.path.join(src, "patch.orig.diff")
        rc, out = sh("git apply %s" % (orig if os.path.exists(orig) else patch), cwd=wt)
        if rc != 0:
            note("error", "patch does not apply: " + out[-300:])
            return finish(name, src, meta)
        rc, out = sh("go build ./...", cwd=wt)
        note("compiles", rc == 0)
        rc1, out1 = sh(run, cwd=wt)
        note("demo_fails_with_patch", rc1 != 0)
        meta["ran"].append(run + " (patched) -> rc=%d" % rc1)
        meta["demo_failure_tail"] = out1[-600:] if rc1 != 0 else ""
        os.remove(demo_dst)
        suite = []
        for i in range(3):
            rc, out = sh("go test -vet=off -count=1 $(go list ./... | grep -v /out) 2>&1 | grep -v 'no test files' | tail -4", cwd=wt)
            suite.append("FAIL" not in out and "ok" in out)
        note("existing_suite_passes_with_patch", suite)
        meta["ran"].append("go test -vet=off -count=1 ./... x3 (patched) -> %s" % suite)
    finally:
        if os.path.exists(demo_dst):
            os.remove(demo_dst)
        sh("git checkout -- .", cwd=wt)
    # --- 2. our checks against it ---
    rc, out = sh("git -C " + REPO + " status --porcelain --untracked-files=no")
    assert not out.strip(), "/repo not clean"
    results = {}
    try:
        rc, out = sh("git -C " + REPO + " apply %s" % patch)
        if rc != 0:
            # the repository moved on since the agent's worktree was taken (later fix: commits): three-way
            rc, out = sh("git -C " + REPO + " apply --3way %s && git -C " % patch + REPO + " reset -q")
            meta["applied_with_3way"] = rc == 0
        if rc != 0:
            note("error", "patch does not apply to /repo: " + out[-300:])
            return finish(name, src, meta)
        for pid in ids:
            t0 = time.time()
            rc, out = sh("./check %s %s" % (pid, tier), cwd=ROOT, timeout=7200)
            line = [l for l in out.splitlines() if l.startswith(("VIOLATION", "OK ", "INCONCLUSIVE"))]
            results[pid] = {"exit": rc, "wall_s": round(time.time() - t0, 1), "line": line[-1] if line else out[-200:]}
            meta["ran"].append("git -C %s apply patch.diff && ./check %s %s -> exit %d" % (REPO, pid, tier, rc))
            print(pid, results[pid], flush=True)
    finally:
        # (reset first: a failed three-way apply leaves unmerged index entries behind)
        sh("git -C " + REPO + " reset -q && git -C " + REPO + " checkout -- .")
    meta["checks"] = results
    meta["detected_by"] = [p for p, r in results.items() if r["exit"] == 1]
    finish(name, src, meta)


def finish(name, src, meta):
    dst = os.path.join(ROOT, "seeded", name)
    os.makedirs(dst, exist_ok=True)
    for f in ("patch.diff", "patch.orig.diff", "demo_test.go", "notes.md"):
        if os.path.exists(os.path.join(src, f)):
            shutil.copyfile(os.path.join(src, f), os.path.join(dst, f if f != "demo_test.go" else "demo_test.go.txt"))
    old = {}
    mp = os.path.join(dst, "meta.json")
    if os.path.exists(mp):
        old = json.load(open(mp))
        hist = old.get("history", [])
        hist.append({k: old.get(k) for k in ("at", "tier", "checks", "detected_by")})
        meta["history"] = hist
        for k in ("breaks_property", "needs_to_manifest"):
            if k in old:
                meta[k] = old[k]
    json.dump(meta, open(mp, "w"), indent=1)
    print("stored", dst)


if __name__ == "__main__":
    main()
