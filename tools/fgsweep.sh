#!/bin/sh
# every fuzz-gen stage for $1 seconds on the unchanged tree
cd "$(dirname "$0")/.." 2>/dev/null || true
python3 - "$1" <<'P'
import sys, os, subprocess
sys.path.insert(0, 'tools'); import stages
secs = sys.argv[1]
for pid, sts in sorted(stages.STAGES.items()):
    for st in sts:
        if st.get('fuzz'):
            env = dict(os.environ, VERIF_ONLY_STAGES=st['name'], VERIF_FUZZTIME=secs + 's', VERIF_EVIDENCE_DIR='.work/dev-evidence', VERIF_REPLAY_DIR='sweep-replays')
            p = subprocess.run(['./check', pid, 'thorough'], env=env, stdout=subprocess.PIPE, stderr=subprocess.STDOUT, text=True)
            last = [l for l in p.stdout.splitlines() if l.startswith(('OK', 'VIOLATION', 'INCONCLUSIVE'))]
            print(pid, st['name'], 'rc=%d' % p.returncode, last[-1] if last else p.stdout[-300:], flush=True)
            if p.returncode != 0:
                open('sweep-%s-%s.log' % (pid, st['name']), 'w').write(p.stdout)
P
