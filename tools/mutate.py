#!/usr/bin/env python3
"""Sensitivity audit: apply one hand-written mutant to /repo, optionally confirm
the repository's own suite still passes, run the quick check(s) that should
catch it, and restore /repo (git checkout).  Usage:
  tools/mutate.py [--suite] [--tier quick] <mutant-id> [<mutant-id> ...] | --all [--prop Cxx]
Mutants live in tools/sensitivity/mutants.json; results are appended to
tools/sensitivity/results.jsonl.
"""
import json, os, subprocess, sys, time
ROOT = os.path.dirname(os.path.dirname(os.path.abspath(__file__)))
MUT = json.load(open(os.path.join(ROOT, "tools/sensitivity/mutants.json")))
REPO = os.environ.get("VERIF_REPO", "/repo")
ENV = dict(os.environ, GOFLAGS="-mod=mod", GOPROXY="off", GOSUMDB="off", VERIF_REPLAY_DIR=os.path.join(ROOT, ".work", "mutant-replays"), VERIF_EVIDENCE_DIR=os.path.join(ROOT, ".work", "mutant-evidence"))

def sh(cmd, **kw):
    return subprocess.run(cmd, shell=True, stdout=subprocess.PIPE, stderr=subprocess.STDOUT, text=True, **kw)

def clean():
    return sh("git -C " + REPO + " status --porcelain --untracked-files=no").stdout.strip() == ""

def restore():
    sh("git -C " + REPO + " checkout -- .")

def run(m, suite, tier):
    assert clean(), REPO + " has uncommitted changes"
    try:
        for ed in m["edits"]:
            p = os.path.join(REPO, ed["file"])
            s = open(p).read()
            if s.count(ed["old"]) != 1:
                return {"id": m["id"], "error": "pattern matches %d times in %s" % (s.count(ed["old"]), ed["file"])}
            open(p, "w").write(s.replace(ed["old"], ed["new"]))
        r = {"id": m["id"], "props": m["props"], "note": m.get("note", "")}
        b = sh("cd " + REPO + " && go build ./... 2>&1", env=ENV)
        if b.returncode != 0:
            r["error"] = "does not compile: " + b.stdout[-400:]
            return r
        if suite:
            t = sh("cd " + REPO + " && go test -vet=off -count=1 ./... 2>&1 | tail -15", env=ENV)
            r["suite_passes"] = "FAIL" not in t.stdout
            if not r["suite_passes"]:
                r["suite_tail"] = t.stdout[-600:]
        for pid in m["props"]:
            t0 = time.time()
            c = sh("cd %s && ./check %s %s" % (ROOT, pid, tier), env=dict(ENV, VERIF_SCALE=os.environ.get("VERIF_SCALE", "100")))
            line = [l for l in c.stdout.splitlines() if l.startswith(("VIOLATION", "OK ", "INCONCLUSIVE"))]
            r[pid] = {"exit": c.returncode, "wall_s": round(time.time() - t0, 1), "line": line[-1] if line else c.stdout[-300:]}
        return r
    finally:
        restore()

def main():
    a = sys.argv[1:]
    suite = "--suite" in a
    tier = "quick"
    if "--tier" in a:
        tier = a[a.index("--tier") + 1]
    prop = a[a.index("--prop") + 1] if "--prop" in a else None
    ids = [x for x in a if not x.startswith("--") and x not in (tier, prop)]
    sel = [m for m in MUT if (("--all" in a) and (prop is None or prop in m["props"])) or m["id"] in ids]
    for m in sel:
        r = run(m, suite, tier)
        r["at"] = time.strftime("%Y-%m-%d %H:%M:%S")
        r["tier"] = tier
        print(json.dumps(r))
        sys.stdout.flush()
        with open(os.path.join(ROOT, "tools/sensitivity/results.jsonl"), "a") as f:
            f.write(json.dumps(r) + "\n")

if __name__ == "__main__":
    main()
