#!/usr/bin/env python3
"""Evaluate several seeded changes in parallel, each against its own scratch clone of /repo.

  tools/seedround.py <out-root> <worktree-root> [--par N] <seed-name>...

<out-root>/<seed-name>/ holds patch.diff, demo_test.go, notes.md as delivered by a sub-agent; the agent's worktree is
<worktree-root>/<property id>. For every seed: git clone /repo to /tmp/seedclones/<seed>, run tools/seedeval.py with
VERIF_REPO pointing at the clone (which confirms the change in the agent's worktree, applies the patch to the clone,
runs ./check <ID> quick against it and stores everything under /verif/seeded/<seed>/), remove the clone. /repo itself
is never touched, so registered checks can run against it at the same time.
"""
import os, shutil, subprocess, sys
from concurrent.futures import ThreadPoolExecutor

ROOT = os.path.dirname(os.path.dirname(os.path.abspath(__file__)))
a = sys.argv[1:]
par = 3
if "--par" in a:
    i = a.index("--par"); par = int(a[i + 1]); del a[i:i + 2]
extra = []
if "--also" in a:  # --also C05,C02 : further checks to run against every seed
    i = a.index("--also"); extra = a[i + 1].split(","); del a[i:i + 2]
out, wts, seeds = a[0], a[1], a[2:]


def one(seed):
    pid = seed.split("-")[0]
    clone = "/tmp/seedclones/" + seed
    shutil.rmtree(clone, ignore_errors=True)
    os.makedirs("/tmp/seedclones", exist_ok=True)
    subprocess.run(["git", "clone", "-q", "/repo", clone], check=True)
    try:
        env = dict(os.environ, VERIF_REPO=clone)
        p = subprocess.run([sys.executable, os.path.join(ROOT, "tools", "seedeval.py"), seed, os.path.join(out, seed), os.path.join(wts, pid), pid] + extra,
                           env=env, stdout=subprocess.PIPE, stderr=subprocess.STDOUT, text=True)
        open(os.path.join(ROOT, ".work", "seedeval-%s.log" % seed), "w").write(p.stdout)
        keys = ("demo_passes_on_head", "demo_fails_with_patch", "existing_suite_passes_with_patch", "error")
        lines = [l for l in p.stdout.splitlines() if l.startswith(keys) or l.startswith(pid + " ") or any(l.startswith(x + " ") for x in extra)]
        return seed, " | ".join(lines)
    finally:
        shutil.rmtree(clone, ignore_errors=True)


os.makedirs(os.path.join(ROOT, ".work"), exist_ok=True)
# seeds of one property share the agent's worktree: one after the other; properties in parallel
groups = {}
for sd in seeds:
    groups.setdefault(sd.split("-")[0], []).append(sd)


def group(pid):
    res = []
    for sd in groups[pid]:
        r = one(sd)
        print(r[0], "::", r[1], flush=True)
        res.append(r)
    return res


with ThreadPoolExecutor(par) as ex:
    list(ex.map(group, sorted(groups)))
