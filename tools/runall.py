#!/usr/bin/env python3
"""Run every claimed check (quick by default) and print one line each. tools/runall.py [tier] [--par N] [ids...]"""
import json, subprocess, sys, time, os
from concurrent.futures import ThreadPoolExecutor
ROOT = os.path.dirname(os.path.dirname(os.path.abspath(__file__)))
a = sys.argv[1:]
tier = "thorough" if "thorough" in a else "quick"
par = int(a[a.index("--par") + 1]) if "--par" in a else 1
ids = [x for x in a if x.startswith("C")] or [c["property_id"] for c in json.load(open(os.path.join(ROOT, "MANIFEST.json")))["checks"]]
def run(pid):
    t0 = time.time()
    p = subprocess.run([os.path.join(ROOT, "check"), pid, tier], cwd=ROOT, stdout=subprocess.PIPE, stderr=subprocess.STDOUT, text=True)
    lines = [l for l in p.stdout.splitlines() if l.startswith(("OK ", "VIOLATION", "INCONCLUSIVE", "KNOWN-FINDING"))]
    return pid, p.returncode, time.time() - t0, lines, p.stdout
bad = 0
with ThreadPoolExecutor(par) as ex:
    for pid, rc, dt, lines, out in ex.map(run, ids):
        print("%s rc=%d %.1fs %s" % (pid, rc, dt, " | ".join(lines)[:200]), flush=True)
        if rc != 0:
            bad += 1
            open(os.path.join(ROOT, ".work", "runall-%s.log" % pid), "w").write(out)
sys.exit(1 if bad else 0)
