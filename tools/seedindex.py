#!/usr/bin/env python3
"""Writes seeded/INDEX.md from the meta.json files under seeded/."""
import json, os, glob
ROOT = os.path.dirname(os.path.dirname(os.path.abspath(__file__)))
ann = {}
ap = os.path.join(ROOT, "seeded", "annotations.json")
if os.path.exists(ap):
    ann = json.load(open(ap))
rows = []
for mp in sorted(glob.glob(os.path.join(ROOT, "seeded", "*", "meta.json"))):
    m = json.load(open(mp))
    name = m["seed"]
    suite = m.get("existing_suite_passes_with_patch") or [False]
    ok = m.get("demo_passes_on_head") and m.get("demo_fails_with_patch") and sum(1 for x in suite if x) * 2 > len(suite)
    checks = m.get("checks", {})
    res = ", ".join("%s %s: %s (%.0fs)" % (p, m.get("tier", "quick"), {0: "MISSED", 1: "caught", 2: "inconclusive"}.get(r["exit"], r["exit"]), r["wall_s"]) for p, r in checks.items())
    an = ann.get(name, {})
    m["summary"] = an.get("summary", m.get("summary", ""))
    m["needs_to_manifest"] = an.get("needs", m.get("needs_to_manifest", ""))
    m["strengthening"] = an.get("strengthening", m.get("strengthening", ""))
    m["breaks_property"] = name.split("-")[0]
    json.dump(m, open(mp, "w"), indent=1)
    rows.append((name, m.get("breaks_property", name.split("-")[0]), m.get("summary", ""), m.get("needs_to_manifest", ""), "confirmed" if ok else "NOT CONFIRMED (%s)" % m.get("error", "see meta.json"), res, m.get("strengthening", "")))
out = ["# Seeded changes", "",
       "One row per change produced by an independent sub-agent (property text + scratch worktree only). `confirmed` = in the scratch",
       "worktree the demonstration passes on HEAD and fails with the patch, and the repository's own suite passes 3x with the patch.",
       "The check column is `./check <ID> <tier>` run with the patch applied to /repo (and undone afterwards).", "",
       "| seed | breaks | change | needs, to manifest | confirmed | our checks | strengthening done because of it |", "|---|---|---|---|---|---|---|"]
for r in rows:
    out.append("| " + " | ".join(str(x).replace("|", "/").replace("\n", " ") for x in r) + " |")
own = sum(1 for r in rows if ("%s quick: caught" % r[1]) in r[5] or ("%s thorough: caught" % r[1]) in r[5])
other = sum(1 for r in rows if "caught" in r[5]) - own
out += ["", "%d changes: %d caught by the quick check of the property they were written against, %d more only by the check of a neighbouring property (named in the row), %d caught by none." % (len(rows), own, other, len(rows) - own - other)]
open(os.path.join(ROOT, "seeded", "INDEX.md"), "w").write("\n".join(out) + "\n")
print("\n".join(out[-3:]))
