"""Per-property stage table for /verif/check.

A stage is one invocation pattern of the props test binary:
  name, run (go test -run regex), race, shards{tier}, checks{tier} (-rapid.checks),
  timeout{tier}, tiers (default both), fuzz{target,time{tier}}, env.
"""

def S(name, run, quick=None, thorough=None, shards=(1, 16), race=False, tiers=("quick", "thorough"),
      timeout=("10m", "60m"), fuzz=None, env=None, shrinktime=None):
    st = {"name": name, "run": run, "race": race, "tiers": list(tiers),
          "shards": {"quick": shards[0], "thorough": shards[1]},
          "timeout": {"quick": timeout[0], "thorough": timeout[1]}}
    if quick or thorough:
        st["checks"] = {"quick": quick, "thorough": thorough}
    if fuzz:
        st["fuzz"] = fuzz
    if env:
        st["env"] = env
    if shrinktime:
        st["shrinktime"] = shrinktime
    return st


def FG(test, secs=90):
    """Thorough only: Go's coverage-guided fuzzer drives the rapid generators of <test> (props/fuzzgen_test.go)."""
    return S("fuzz-gen-" + test, "^$", tiers=("thorough",), shards=(1, 1), timeout=("10m", "30m"), env={"VERIF_FUZZ_TEST": test},
             fuzz={"target": "^FuzzGen$", "time": {"quick": "10s", "thorough": "%ds" % secs}})


STAGES = {
    "C07": [S("regress", "^TestC07Regress$|^TestC07WriteFault$"),
            S("lag", "^TestC07Lag$"),
            S("machine", "^TestC07$", quick=250, thorough=4000, shards=(6, 16), timeout=("15m", "90m")),
            # the same machine on one P: sync.Pool then hands an object straight to the next Get, whoever calls it
            S("machine-1p", "^TestC07$", quick=200, thorough=2000, shards=(4, 16), timeout=("15m", "90m"), env={"GOMAXPROCS": "1"}),
            S("parallel-race", "^TestC07Parallel$", quick=80, thorough=2000, shards=(4, 16), race=True, timeout=("15m", "90m"))],
    "C08": [S("regress", "^TestC08Regress$|^TestC08MultiStream$|^TestC08AfterLimit$|^TestC08NetConnStream$"),
            S("limits", "^TestC08$", quick=250, thorough=2500, shards=(6, 16), timeout=("15m", "90m"), shrinktime="90s"),
            S("bombs", "^TestC08Bombs$", tiers=("thorough",))],
    "C09": [S("regress", "^TestC09Regress$|^TestC09NetConnClose$"),
            S("matrix", "^TestC09$", shards=(8, 16)),
            S("mixed", "^TestC09Mixed$", quick=3000, thorough=200000, shards=(2, 16))],
    "C10": [S("after-refusal", "^TestC10AfterRefusal$"),
            S("programs", "^TestC10$", quick=2500, thorough=150000, shards=(4, 16))],
    "C11": [S("requests", "^TestC11$", quick=6000, thorough=200000, shards=(2, 16)),
            S("server", "^TestC11Server$", quick=400, thorough=20000, shards=(1, 4)),
            S("fuzz", "^$", tiers=("thorough",), shards=(1, 1), fuzz={"target": "^FuzzC11$", "time": {"quick": "10s", "thorough": "300s"}}, timeout=("10m", "30m"))],
    "C12": [S("origins", "^TestC12$", quick=30000, thorough=200000, shards=(2, 16)),
            S("fuzz", "^$", tiers=("thorough",), shards=(1, 1), fuzz={"target": "^FuzzC12$", "time": {"quick": "10s", "thorough": "300s"}}, timeout=("10m", "30m"))],
    "C13": [S("responses", "^TestC13$", quick=8000, thorough=200000, shards=(2, 16)),
            S("silent", "^TestC13Silent$", quick=1500, thorough=100000, shards=(1, 8)),
            S("keys", "^TestC13Keys$")],
    "C14": [S("regress", "^TestC14Regress$|^TestC14LibLib$"),
            S("server-enum", "^TestC14Server$", shards=(4, 16)),
            S("client-enum", "^TestC14Client$", shards=(1, 4)),
            S("shared-header", "^TestC14SharedHeader$", quick=300, thorough=20000, shards=(1, 4)),
            S("server-lists", "^TestC14ServerLists$", quick=2500, thorough=60000, shards=(3, 16)),
            S("interleaved", "^TestC14Interleaved$", quick=600, thorough=20000, shards=(2, 16))],
    "C15": [S("stall", "^TestC15Stall$"),
            S("outbound", "^TestC15$", quick=3000, thorough=150000, shards=(3, 16)),
            S("inbound", "^TestC15Inbound$", quick=1500, thorough=80000, shards=(3, 16))],
    "C18": [S("regress", "^TestC18Regress$|^TestC18ZeroRead$"),
            S("stream", "^TestC18$", quick=600, thorough=30000, shards=(4, 16)),
            S("deadlines", "^TestC18Deadlines$", quick=3000, thorough=100000, shards=(2, 16))],
    "C16": [S("regress", "^TestC16Regress$"),
            S("lag", "^TestC16Lag$"),
            S("schedules", "^TestC16$", quick=3000, thorough=150000, shards=(4, 16)),
            S("schedules-race", "^TestC16$", quick=300, thorough=20000, shards=(2, 16), race=True)],
    "C17": [S("grid", "^TestC17$", shards=(4, 16)),
            S("neighbours", "^TestC17Neighbours$|^TestC17Large$|^TestC17Huge$")],
    "C01": [S("sweep", "^TestC01Sweep$", shards=(3, 9)),
            S("sender-dies", "^TestC01SenderDies$|^TestC01TwoPairs$"),
            S("roundtrip", "^TestC01$", quick=250, thorough=4000, shards=(6, 16), timeout=("15m", "90m"))],
    "C02": [S("lag", "^TestC02Lag$"),
            S("close-queued", "^TestC02CloseQueued$"),
            S("programs", "^TestC02$", quick=1500, thorough=200000, shards=(4, 16))],
    "C03": [S("regress", "^TestC03Regress$|^TestC03Flood$|^TestC03ForeignWindow$"),
            S("structured", "^TestC03$", quick=1500, thorough=10000, shards=(4, 16)),
            S("raw", "^TestC03Raw$", quick=8000, thorough=60000, shards=(4, 16)),
            S("fuzz", "^$", tiers=("thorough",), shards=(1, 1), fuzz={"target": "^FuzzC03$", "time": {"quick": "10s", "thorough": "180s"}}, timeout=("10m", "30m"))],
    "C04": [S("cuts", "^TestC04$", quick=40, thorough=60, shards=(6, 16), timeout=("15m", "120m"), shrinktime="60s"),
            S("transient", "^TestC04Transient$", quick=12, thorough=60, shards=(4, 16), timeout=("15m", "120m"), shrinktime="60s"),
            S("big", "^TestC04Big$", quick=25, thorough=400, shards=(6, 16), timeout=("15m", "120m"), shrinktime="60s")],
    "C05": [S("regress", "^TestC05Regress$|^TestC05StaleHandleRace$"),
            S("concurrent", "^TestC05$", quick=150, thorough=2500, shards=(6, 16), timeout=("15m", "90m")),
            S("concurrent-race", "^TestC05$", quick=40, thorough=800, shards=(4, 16), race=True, timeout=("15m", "90m"))],
    "C06": [S("codes", "^TestC06$", shards=(8, 16)),
            S("two-closers", "^TestC06TwoClosers$|^TestC06CloseBesideReader$|^TestC06CloseQueued$"),
            S("mixed", "^TestC06Mixed$", quick=3000, thorough=200000, shards=(2, 16))],
    "C19": [S("reads", "^TestC19$", quick=2500, thorough=120000, shards=(3, 16)),
            S("writes", "^TestC19Write$", quick=800, thorough=40000, shards=(1, 8)),
            S("writes-concurrent", "^TestC19WriteConcurrent$", quick=300, thorough=20000, shards=(2, 8)),
            S("writes-concurrent-race", "^TestC19WriteConcurrent$", quick=60, thorough=4000, shards=(2, 8), race=True),
            S("concurrent-race", "^TestC19Concurrent$", quick=300, thorough=20000, shards=(2, 16), race=True)],
    "C20": [S("lag", "^TestC20Lag$", shards=(6, 6)),
            S("histories", "^TestC20$", quick=120, thorough=1500, shards=(6, 16), shrinktime="90s")],
}

STAGES["C17"].append(S("fuzz", "^$", tiers=("thorough",), shards=(1, 1), fuzz={"target": "^FuzzC17$", "time": {"quick": "10s", "thorough": "120s"}}, timeout=("10m", "30m")))
STAGES["C14"].append(S("fuzz", "^$", tiers=("thorough",), shards=(1, 1), fuzz={"target": "^FuzzC14$", "time": {"quick": "10s", "thorough": "240s"}}, timeout=("10m", "30m")))
STAGES["C19"].append(S("fuzz", "^$", tiers=("thorough",), shards=(1, 1), fuzz={"target": "^FuzzC19$", "time": {"quick": "10s", "thorough": "180s"}}, timeout=("10m", "30m")))

for _pid, _tests in {"C01": ["TestC01"], "C02": ["TestC02"], "C03": ["TestC03", "TestC03Raw"], "C04": ["TestC04"], "C06": ["TestC06Mixed"], "C08": ["TestC08"],
                     "C09": ["TestC09Mixed"], "C10": ["TestC10"], "C11": ["TestC11"], "C12": ["TestC12"], "C13": ["TestC13", "TestC13Silent"],
                     "C14": ["TestC14ServerLists", "TestC14Interleaved"], "C15": ["TestC15", "TestC15Inbound"], "C16": ["TestC16"],
                     "C18": ["TestC18", "TestC18Deadlines"], "C19": ["TestC19", "TestC19Write"], "C20": ["TestC20"]}.items():
    for _t in _tests:
        STAGES[_pid].append(FG(_t))

LEVELS = {
    "C01": "exploration", "C02": "exploration", "C03": "exploration", "C04": "fault_enumeration",
    "C05": "exploration", "C06": "exploration", "C07": "exploration", "C08": "exploration",
    "C09": "fault_enumeration", "C10": "exploration", "C11": "exploration", "C12": "exploration",
    "C13": "exploration", "C14": "exploration", "C15": "exploration", "C16": "exploration",
    "C17": "exploration", "C18": "exploration", "C19": "exploration", "C20": "exploration",
}

COMMON = ["Go's compress/flate, crypto/sha1, encoding/base64, encoding/json, net/http parsing are trusted primitives",
          "the harness's reference codec/model (harness/ref) is the oracle; it shares no code with /repo",
          "pgregory.net/rapid v1.3.0 generation/shrinking and (where virtual time is used) go1.26.8 testing/synctest are trusted"]

ASSUMPTIONS = {k: list(COMMON) for k in LEVELS}
ASSUMPTIONS["C17"] = ["the byte-loop definition in the harness is the specification of RFC 6455 section 5.3",
                      "amd64 host: the arm64 assembly is not executed here"]
