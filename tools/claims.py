"""What each claimed check asserts about itself (MANIFEST level text / note / technique)."""
CLAIMS = {
 "C17": {
  "text": "Exhaustive enumeration over the grid the property names: every length 0..4200 x every start alignment 0..63 x every implementation (maskGo, mask, maskAsm) with keys whose four bytes are distinct (thorough; quick enumerates 0..1100 completely plus drawn longer lengths), every 2-piece split up to length 300 and 3-piece split up to length 64, guard bytes on both sides and buffers placed flush against PROT_NONE pages; each case compared with the byte-loop definition. Within that grid the result is complete, not sampled; contents and one key per case are derived from VERIF_SEED.",
  "note": "Trusted: the byte-loop oracle in the harness; mmap/mprotect + debug.SetPanicOnFault to observe out-of-bounds access; amd64 only (the arm64 assembly cannot run here). Needs the verif-tag export hook.",
  "technique": "exhaustive enumeration against a byte-loop oracle (differential across implementations), guard bytes and guard pages",
 },

 "C06": {
  "text": "Exhaustive in the code dimension, generated elsewhere: local Close(code, reason) is run for every one of the 65536 wire codes plus out-of-range values, and a received Close frame for every 16-bit code, each with a reason-length class, role and timing (idle / after a message / with a read pending / read started afterwards) derived from VERIF_SEED, against a scripted raw peer in virtual time; rapid then draws mixed cases including library<->library closes and Close/CloseNow call sequences of length 2-4 (sequential and concurrent). Oracle: independent sendable-code table, exact Close-frame payload on the wire, CloseError/CloseStatus on the reading side, echo payload, nil from Close when the peer echoes, every later Read/Reader/Write/Writer/Ping failing and later Close/CloseNow matching net.ErrClosed. Only the first Close frame is judged here (C16 covers what follows).",
  "note": "Trusted: the harness's close-code table (RFC 6455 7.4 + IANA) and frame parser; testing/synctest virtual time. Does not assert what Close returns when the peer answers with a different code or not at all (not stated by the property).",
  "technique": "exhaustive enumeration of close codes + rapid-generated histories against an independent code table and wire parser, in virtual time",
 },

 "C03": {
  "text": "Generated-input search against an independent reference receiver. Structured: rapid draws 1-5 messages, fragmentation (empty fragments, cuts inside compressed payloads), foreign deflater variants (sync flush, BFINAL=1 + 00, stored, multi-flush, levels), Ping/Pong at every position, 0-2 injected violations from the property's list (or a valid Close, or a non-minimal length after which comparison stops), 9 (role x negotiated compression) settings obtained through the real handshake, transport chunking down to one byte and read buffers 1..100000. Raw: byte-mutated valid streams and header-biased random strings. The library's delivered messages, Pongs, Close echo and failure point must equal the reference receiver's; panics are captured as failures. Thorough adds native coverage-guided fuzzing with the same differential oracle inside the target.",
  "note": "Trusted: harness/ref (frame parser, receive model, inflater with explicit history), compress/flate as DEFLATE primitive. Not compared (excluded by the property): UTF-8, behaviour after a non-minimal length, output of malformed DEFLATE (incl. data after a BFINAL block), the status code of the Close sent after a violation. A CloseError is only required for a Close frame at a message boundary.",
  "technique": "rapid structured generation + byte-level mutation (and native go fuzzing in thorough) with a differential oracle: independent RFC 6455/7692 reference receiver",
 },

 "C04": {
  "text": "Fault enumeration over transport cut points: rapid draws multi-message, multi-fragment streams (uncompressed / compressed with either takeover setting and any foreign deflater, with interleaved control frames; binary-only and JSON flavours), and for each stream the check enumerates every cut offset 0..len(stream) x {EOF, io.ErrUnexpectedEOF, reset error}, observing through Reader+Read (small and large buffers), Conn.Read, NetConn.Read and wsjson.Read (rotating per cut, all of them near frame boundaries), on both roles. Oracle from the stream's own message boundaries: every message wholly before the cut is delivered intact, the message in progress ends in a non-nil error (never a clean end), bytes handed out before it (including those returned together with the error) are a true prefix of its payload, later reads yield nothing, NetConn never returns io.EOF for a mid-message cut, wsjson never decodes a prefix. Complete in the cut dimension for each generated stream; streams are sampled.",
  "note": "Trusted: the harness's knowledge of its own stream layout, the reference deflaters (verified to round-trip against the reference inflater; a compress/flate NewWriterDict stored-block bug is worked around), memconn's termination errors.",
  "technique": "rapid-generated streams + exhaustive enumeration of cut offsets and termination kinds (fault injection) against the stream's known message boundaries",
 },
}
PENDING = {}
