"""What each claimed check asserts about itself (MANIFEST level text / note / technique)."""
CLAIMS = {
 "C17": {
  "text": "Exhaustive enumeration over the grid the property names: every length 0..4200 x every start alignment 0..63 x every implementation (maskGo, mask, maskAsm) with keys whose four bytes are distinct (thorough; quick enumerates 0..1100 completely plus drawn longer lengths), every 2-piece split up to length 300 and 3-piece split up to length 64, guard bytes on both sides and buffers placed flush against PROT_NONE pages; each case compared with the byte-loop definition. Within that grid the result is complete, not sampled; contents and one key per case are derived from VERIF_SEED.",
  "note": "Trusted: the byte-loop oracle in the harness; mmap/mprotect + debug.SetPanicOnFault to observe out-of-bounds access; amd64 only (the arm64 assembly cannot run here). Needs the verif-tag export hook.",
  "technique": "exhaustive enumeration against a byte-loop oracle (differential across implementations), guard bytes and guard pages",
 },

 "C06": {
  "text": "Exhaustive in the code dimension, generated elsewhere: local Close(code, reason) is run for every one of the 65536 wire codes plus out-of-range values, and a received Close frame for every 16-bit code, each with a reason-length class, role and timing (idle / after a message / with a read pending / read started afterwards) derived from VERIF_SEED, against a scripted raw peer in virtual time; rapid then draws mixed cases including library<->library closes and Close/CloseNow call sequences of length 2-4 (sequential and concurrent). Oracle: independent sendable-code table, exact Close-frame payload on the wire, CloseError/CloseStatus on the reading side, echo payload, nil from Close when the peer echoes, every later Read/Reader/Write/Writer/Ping failing and later Close/CloseNow matching net.ErrClosed. Only the first Close frame is judged here (C16 covers what follows).",
  "note": "Trusted: the harness's close-code table (RFC 6455 7.4 + IANA) and frame parser; testing/synctest virtual time. Does not assert what Close returns when the peer answers with a different code or not at all (not stated by the property).",
  "technique": "exhaustive enumeration of close codes + rapid-generated histories against an independent code table and wire parser, in virtual time",
 },
}
PENDING = {}
