"""What each claimed check asserts about itself (MANIFEST level text / note / technique)."""
CLAIMS = {
 "C17": {
  "text": "Exhaustive enumeration over the grid the property names: every length 0..4200 x every start alignment 0..63 x every implementation (maskGo, mask, maskAsm) with keys whose four bytes are distinct (thorough; quick enumerates 0..1100 completely plus drawn longer lengths), every 2-piece split up to length 300 and 3-piece split up to length 64, guard bytes on both sides and buffers placed flush against PROT_NONE pages; each case compared with the byte-loop definition. Within that grid the result is complete, not sampled; contents and one key per case are derived from VERIF_SEED.",
  "note": "Trusted: the byte-loop oracle in the harness; mmap/mprotect + debug.SetPanicOnFault to observe out-of-bounds access; amd64 only (the arm64 assembly cannot run here). Needs the verif-tag export hook.",
  "technique": "exhaustive enumeration against a byte-loop oracle (differential across implementations), guard bytes and guard pages",
 },
}
PENDING = {}
