// Package memconn is the scripted in-memory transport the harness puts under a
// websocket.Conn. It is a buffered duplex pipe whose two directions are
// independent streams (mutex + sync.Cond, so waits are durably blocking inside a
// testing/synctest bubble) with a control surface for the harness: delivery
// chunking, terminal errors at any offset, write budgets (zero receive window,
// frames held half-written), and a tap that records every byte with the
// (virtual) time and the Write call boundaries.
package memconn

import (
	"errors"
	"io"
	"net"
	"os"
	"sync"
	"time"
)

// ErrReset is the "connection reset"-style transport failure the harness injects.
var ErrReset = errors.New("memconn: connection reset by peer")

// Mark records one accepted write segment.
type Mark struct {
	Off  int       // offset in the recording at which the segment starts
	Len  int       // bytes accepted
	At   time.Time // (virtual) time of acceptance
	Call int       // index of the Write call the segment belongs to
}

type stream struct {
	mu   sync.Mutex
	cond *sync.Cond

	chunks [][]byte
	size   int

	capacity int   // 0 = unbounded
	budget   int64 // <0 unlimited; bytes the writer may still push

	wclosed bool  // writer side closed: reader gets rerr after drain
	rerr    error // terminal error for reader after drain
	rclosed bool  // reader side closed: reads fail at once, writes fail

	// writeHook (if set) sees everything written so far after each completed Write call; a non-nil result is
	// returned to the writer as that call's error although all of its bytes were taken and delivered (a transport
	// that reports a transient error for a segment that did go out). Called with the stream's lock held.
	writeHook func(rec []byte) error

	// faultAt >= 0: once exactly faultAt bytes have been handed to the reader, the next Read fails with faultErr
	// and the stream carries on afterwards (a transient fault: a deadline of the transport's own, EINTR, a TLS alert retried)
	faultAt   int
	faultErr  error
	delivered int

	// errWithData: the Read that hands over the last bytes before the end of the stream returns the terminal
	// error together with them (io.Reader allows both; sockets and TLS connections do it)
	errWithData bool

	maxRead   int   // per-Read cap (0 = none)
	readSizes []int // scripted caps for the next reads

	rec      []byte
	marks    []Mark
	calls    int
	closedAt time.Time
	reads    int

	// lagUntil: the local Close that ended this stream does not interrupt calls
	// that are blocked in it (or arrive) before this instant; they fail then.
	lagUntil time.Time
	// lagAccept: a Write held back by the lag is accepted (and recorded) when the lag
	// is over instead of failing - a segment that was already on its way.
	lagAccept bool

	// deadlines as set through net.Conn's SetReadDeadline (reader side of this stream) and
	// SetWriteDeadline (writer side): an operation that is past its deadline, or gets there
	// while blocked, fails with os.ErrDeadlineExceeded, as on a socket.
	rdl, wdl time.Time
}

// wake arranges for the waiters of s to look again when dl is reached (s.mu is held).
func (s *stream) wake(dl time.Time) {
	if dl.IsZero() {
		return
	}
	time.AfterFunc(time.Until(dl), func() {
		s.mu.Lock()
		s.cond.Broadcast()
		s.mu.Unlock()
	})
}

func expired(dl time.Time) bool { return !dl.IsZero() && !time.Now().Before(dl) }

// waitLag is called with s.mu held when a local Close has ended the stream.
func (s *stream) waitLag() {
	if d := time.Until(s.lagUntil); d > 0 {
		s.mu.Unlock()
		time.Sleep(d)
		s.mu.Lock()
	}
}

func newStream() *stream {
	s := &stream{budget: -1, faultAt: -1}
	s.cond = sync.NewCond(&s.mu)
	return s
}

func (s *stream) read(p []byte) (int, error) {
	s.mu.Lock()
	defer s.mu.Unlock()
	for {
		if s.rclosed {
			lagging := time.Until(s.lagUntil) > 0
			s.waitLag()
			if lagging && s.lagAccept && len(s.chunks) > 0 {
				break // a segment that arrived while the close was not yet effective is still delivered
			}
			return 0, net.ErrClosed
		}
		if len(s.chunks) > 0 {
			break
		}
		if s.wclosed {
			err := s.rerr
			if err == nil {
				err = io.EOF
			}
			return 0, err
		}
		if expired(s.rdl) {
			return 0, os.ErrDeadlineExceeded
		}
		s.wake(s.rdl)
		s.cond.Wait()
	}
	if len(p) == 0 {
		return 0, nil
	}
	if s.faultAt >= 0 && s.delivered == s.faultAt {
		s.faultAt = -1
		return 0, s.faultErr
	}
	s.reads++
	limit := len(p)
	if s.faultAt > s.delivered && s.faultAt-s.delivered < limit {
		limit = s.faultAt - s.delivered // stop exactly at the fault point
	}
	if len(s.readSizes) > 0 {
		if s.readSizes[0] > 0 && s.readSizes[0] < limit {
			limit = s.readSizes[0]
		}
		s.readSizes = s.readSizes[1:]
	} else if s.maxRead > 0 && s.maxRead < limit {
		limit = s.maxRead
	}
	c := s.chunks[0]
	n := copy(p[:limit], c)
	if n == len(c) {
		s.chunks = s.chunks[1:]
	} else {
		s.chunks[0] = c[n:]
	}
	s.size -= n
	s.delivered += n
	s.cond.Broadcast()
	if s.errWithData && len(s.chunks) == 0 && s.wclosed {
		err := s.rerr
		if err == nil {
			err = io.EOF
		}
		return n, err
	}
	return n, nil
}

func (s *stream) write(p []byte) (int, error) {
	s.mu.Lock()
	defer s.mu.Unlock()
	call := s.calls
	s.calls++
	n := 0
	for {
		if s.rclosed && !s.wclosed && s.lagAccept && time.Until(s.lagUntil) > 0 {
			// the reader's Close is not effective yet: the segment is taken
		} else if s.rclosed || s.wclosed {
			if s.wclosed {
				lagging := time.Until(s.lagUntil) > 0
				s.waitLag()
				if lagging && s.lagAccept {
					s.marks = append(s.marks, Mark{Off: len(s.rec), Len: len(p), At: time.Now(), Call: call})
					s.rec = append(s.rec, p...)
					return n + len(p), nil
				}
			}
			return n, io.ErrClosedPipe
		}
		if len(p) == 0 {
			if s.writeHook != nil && n > 0 {
				if err := s.writeHook(s.rec); err != nil {
					return n, err
				}
			}
			return n, nil
		}
		if expired(s.wdl) {
			return n, os.ErrDeadlineExceeded
		}
		room := len(p)
		if s.capacity > 0 {
			if r := s.capacity - s.size; r < room {
				room = r
			}
		}
		if s.budget >= 0 && int64(room) > s.budget {
			room = int(s.budget)
		}
		if room <= 0 {
			s.wake(s.wdl)
			s.cond.Wait()
			continue
		}
		seg := append([]byte(nil), p[:room]...)
		s.marks = append(s.marks, Mark{Off: len(s.rec), Len: room, At: time.Now(), Call: call})
		s.rec = append(s.rec, seg...)
		s.chunks = append(s.chunks, seg)
		s.size += room
		if s.budget >= 0 {
			s.budget -= int64(room)
		}
		p = p[room:]
		n += room
		s.cond.Broadcast()
	}
}

// closeWrite ends the stream for the reader with err (io.EOF if nil) once drained.
func (s *stream) closeWrite(err error) {
	s.mu.Lock()
	if !s.wclosed {
		s.wclosed = true
		s.rerr = err
		s.closedAt = time.Now()
	}
	s.cond.Broadcast()
	s.mu.Unlock()
}

func (s *stream) closeRead() {
	s.mu.Lock()
	s.rclosed = true
	s.cond.Broadcast()
	s.mu.Unlock()
}

// End is one side of the duplex pipe. It implements net.Conn.
type End struct {
	in, out *stream
	name    string

	cmu        sync.Mutex
	closed     bool
	closedAt   time.Time
	closes     int
	closeLag   time.Duration
	closeDelay time.Duration
}

// SetCloseDelay makes Close itself take d before it returns (a TLS close_notify on a slow link).
func (e *End) SetCloseDelay(d time.Duration) {
	e.cmu.Lock()
	e.closeDelay = d
	e.cmu.Unlock()
}

// SetCloseLag makes this end behave like a transport whose Close does not
// interrupt pending I/O at once: Reads and Writes of this end that are blocked
// when Close is called (or arrive within d of it) fail only d later.
func (e *End) SetCloseLag(d time.Duration) {
	e.cmu.Lock()
	e.closeLag = d
	e.cmu.Unlock()
}

// SetCloseLagAccept makes Writes that are held back by the close lag succeed
// when the lag is over (the bytes are recorded but never delivered), and lets a
// Read that is held back return data the other side wrote during the lag.
func (e *End) SetCloseLagAccept(on bool) {
	e.out.mu.Lock()
	e.out.lagAccept = on
	e.out.mu.Unlock()
	e.in.mu.Lock()
	e.in.lagAccept = on
	e.in.mu.Unlock()
}

// Pipe returns the library side and the harness (peer) side of a fresh transport.
func Pipe() (lib, peer *End) {
	a, b := newStream(), newStream()
	lib = &End{in: a, out: b, name: "lib"}
	peer = &End{in: b, out: a, name: "peer"}
	return lib, peer
}

func (e *End) Read(p []byte) (int, error)  { return e.in.read(p) }
func (e *End) Write(p []byte) (int, error) { return e.out.write(p) }

// Close closes both directions like a socket close: the other side reads EOF
// after draining what was written and its writes fail.
func (e *End) Close() error {
	e.cmu.Lock()
	e.closes++
	if e.closed {
		e.cmu.Unlock()
		return net.ErrClosed
	}
	e.closed = true
	e.closedAt = time.Now()
	lag, delay := e.closeLag, e.closeDelay
	e.cmu.Unlock()
	if delay > 0 {
		time.Sleep(delay)
	}
	if lag > 0 {
		until := e.closedAt.Add(lag)
		e.out.mu.Lock()
		e.out.lagUntil = until
		e.out.mu.Unlock()
		e.in.mu.Lock()
		e.in.lagUntil = until
		e.in.mu.Unlock()
	}
	e.out.closeWrite(nil)
	e.in.closeRead()
	return nil
}

// Closed reports whether this end was closed and when.
func (e *End) Closed() (bool, time.Time) {
	e.cmu.Lock()
	defer e.cmu.Unlock()
	return e.closed, e.closedAt
}

// CloseWrite ends this end's outgoing direction: after the other side has
// drained what was written it reads err (io.EOF when err is nil).
func (e *End) CloseWrite(err error) { e.out.closeWrite(err) }

// SetWriteHook installs a hook on what THIS end writes (see stream.writeHook).
func (e *End) SetWriteHook(h func(rec []byte) error) {
	e.out.mu.Lock()
	e.out.writeHook = h
	e.out.mu.Unlock()
}

// SetReadFault makes the OTHER side's Read fail once with err when exactly off bytes of what this end wrote have
// been read, and carry on afterwards.
func (e *End) SetReadFault(off int, err error) {
	e.out.mu.Lock()
	e.out.faultAt, e.out.faultErr = off, err
	e.out.mu.Unlock()
}

// SetErrWithLastBytes: the other side's Read that drains the last bytes written before CloseWrite
// returns them together with the terminal error instead of returning the error on the next call.
func (e *End) SetErrWithLastBytes(on bool) {
	e.out.mu.Lock()
	e.out.errWithData = on
	e.out.mu.Unlock()
}

// WriteChunks writes p so that the other side's Reads see the given chunking
// (sizes are consumed in order; the remainder goes as one chunk).
func (e *End) WriteChunks(p []byte, sizes []int) (int, error) {
	total := 0
	for _, sz := range sizes {
		if len(p) == 0 {
			break
		}
		if sz <= 0 {
			continue
		}
		if sz > len(p) {
			sz = len(p)
		}
		n, err := e.out.write(p[:sz])
		total += n
		if err != nil {
			return total, err
		}
		p = p[sz:]
	}
	if len(p) > 0 {
		n, err := e.out.write(p)
		total += n
		return total, err
	}
	return total, nil
}

// SetPeerMaxRead caps every Read of the other side at n bytes (0 = no cap).
func (e *End) SetPeerMaxRead(n int) {
	e.out.mu.Lock()
	e.out.maxRead = n
	e.out.mu.Unlock()
}

// SetOutCapacity bounds the bytes buffered in this end's outgoing direction.
func (e *End) SetOutCapacity(n int) {
	e.out.mu.Lock()
	e.out.capacity = n
	e.out.cond.Broadcast()
	e.out.mu.Unlock()
}

// SetInBudget sets how many more bytes the other side may write towards this
// end (<0 = unlimited). With 0 the other side's Write blocks: a zero window.
func (e *End) SetInBudget(n int64) {
	e.in.mu.Lock()
	e.in.budget = n
	e.in.cond.Broadcast()
	e.in.mu.Unlock()
}

// AddInBudget releases n more bytes.
func (e *End) AddInBudget(n int64) {
	e.in.mu.Lock()
	if e.in.budget >= 0 {
		e.in.budget += n
	}
	e.in.cond.Broadcast()
	e.in.mu.Unlock()
}

// InRecording returns a copy of every byte the other side has written so far.
func (e *End) InRecording() []byte {
	e.in.mu.Lock()
	defer e.in.mu.Unlock()
	return append([]byte(nil), e.in.rec...)
}

// InMarks returns the write segments of the other side.
func (e *End) InMarks() []Mark {
	e.in.mu.Lock()
	defer e.in.mu.Unlock()
	return append([]Mark(nil), e.in.marks...)
}

// InPending is the number of bytes written by the other side and not yet read.
func (e *End) InPending() int {
	e.in.mu.Lock()
	defer e.in.mu.Unlock()
	return e.in.size
}

// OutPending is the number of bytes written by this end and not yet read.
func (e *End) OutPending() int {
	e.out.mu.Lock()
	defer e.out.mu.Unlock()
	return e.out.size
}

// OutReads counts the Read calls that returned data on the other side.
func (e *End) OutReads() int {
	e.out.mu.Lock()
	defer e.out.mu.Unlock()
	return e.out.reads
}

type addr struct{}

func (addr) Network() string { return "memconn" }
func (addr) String() string  { return "memconn" }

func (e *End) LocalAddr() net.Addr  { return addr{} }
func (e *End) RemoteAddr() net.Addr { return addr{} }
func (e *End) SetDeadline(t time.Time) error {
	e.SetReadDeadline(t)
	return e.SetWriteDeadline(t)
}
func (e *End) SetReadDeadline(t time.Time) error {
	e.in.mu.Lock()
	e.in.rdl = t
	e.in.cond.Broadcast()
	e.in.mu.Unlock()
	return nil
}
func (e *End) SetWriteDeadline(t time.Time) error {
	e.out.mu.Lock()
	e.out.wdl = t
	e.out.cond.Broadcast()
	e.out.mu.Unlock()
	return nil
}

var _ net.Conn = (*End)(nil)
