// Package evid collects what a check actually covered (cases, distinct
// non-trivial cases, class histogram, samples) and writes it where the driver
// picks it up to build /verif/evidence/<id>.json.
package evid

import (
	"encoding/binary"
	"encoding/json"
	"fmt"
	"hash/fnv"
	"os"
	"path/filepath"
	"sort"
	"strconv"
	"sync"
)

// Rec is one property's recorder. All methods are safe for concurrent use.
type Rec struct {
	mu         sync.Mutex
	ID         string
	Rule       string
	evals      int64
	nontrivial map[uint64]struct{}
	classes    map[string]int64
	samples    []any
	sampleCap  int
	excluded   map[string]int64
	known      map[string]string
	exhaustive map[string]bool
	extra      map[string]any
}

var (
	regMu sync.Mutex
	reg   = map[string]*Rec{}
)

// For returns the recorder of a property (created on first use).
func For(id string) *Rec {
	regMu.Lock()
	defer regMu.Unlock()
	r := reg[id]
	if r == nil {
		r = &Rec{ID: id, nontrivial: map[uint64]struct{}{}, classes: map[string]int64{},
			excluded: map[string]int64{}, known: map[string]string{}, exhaustive: map[string]bool{},
			extra: map[string]any{}, sampleCap: 12}
		reg[id] = r
	}
	return r
}

func hash(s string) uint64 {
	h := fnv.New64a()
	h.Write([]byte(s))
	return h.Sum64()
}

// Case records one evaluated case. key is the structural identity used for
// distinctness; it only counts when nontrivial is true.
func (r *Rec) Case(nontrivial bool, key string, classes ...string) {
	r.mu.Lock()
	r.evals++
	if nontrivial {
		r.nontrivial[hash(key)] = struct{}{}
	}
	for _, c := range classes {
		if c != "" {
			r.classes[c]++
		}
	}
	r.mu.Unlock()
}

// Class bumps a class counter without counting a case.
func (r *Rec) Class(c string, n int64) {
	r.mu.Lock()
	r.classes[c] += n
	r.mu.Unlock()
}

// Evals adds n evaluations that carry no distinctness key of their own.
func (r *Rec) Evals(n int64) {
	r.mu.Lock()
	r.evals += n
	r.mu.Unlock()
}

// Sample keeps up to a dozen written-out cases, spread over the run: the
// first few and then every 2^k-th.
func (r *Rec) Sample(v any) {
	r.mu.Lock()
	defer r.mu.Unlock()
	if len(r.samples) < r.sampleCap {
		r.samples = append(r.samples, v)
	}
}

// WantSample reports whether another sample would be kept (to avoid building one).
func (r *Rec) WantSample() bool {
	r.mu.Lock()
	defer r.mu.Unlock()
	return len(r.samples) < r.sampleCap
}

// Excluded counts a generated shape that was skipped by construction because
// it is an open known finding.
func (r *Rec) Excluded(what string) {
	r.mu.Lock()
	r.excluded[what]++
	r.mu.Unlock()
}

// Known reports that an open known finding still reproduces.
func (r *Rec) Known(id, what string) {
	r.mu.Lock()
	r.known[id] = what
	r.mu.Unlock()
}

// Exhaustive marks a finite dimension as enumerated completely (or not).
func (r *Rec) Exhaustive(dim string, complete bool) {
	r.mu.Lock()
	r.exhaustive[dim] = complete
	r.mu.Unlock()
}

// Extra attaches a free-form measured value.
func (r *Rec) Extra(k string, v any) {
	r.mu.Lock()
	r.extra[k] = v
	r.mu.Unlock()
}

type fileFormat struct {
	ID         string            `json:"id"`
	Rule       string            `json:"rule"`
	Evals      int64             `json:"evaluations"`
	Distinct   int               `json:"distinct_nontrivial"`
	HashFile   string            `json:"hash_file"`
	Classes    map[string]int64  `json:"classes"`
	Samples    []any             `json:"samples"`
	Excluded   map[string]int64  `json:"excluded"`
	Known      map[string]string `json:"known"`
	Exhaustive map[string]bool   `json:"exhaustive"`
	Extra      map[string]any    `json:"extra"`
}

// FlushAll writes every recorder to $VERIF_OUT/<id>.<shard>.json (+ .hashes).
func FlushAll() {
	dir := os.Getenv("VERIF_OUT")
	if dir == "" {
		return
	}
	shard := os.Getenv("VERIF_SHARD")
	if shard == "" {
		shard = "0"
	}
	// the worker processes of a native fuzz campaign share VERIF_OUT and VERIF_SHARD: one file per process
	for _, a := range os.Args {
		if a == "-test.fuzzworker" || a == "--test.fuzzworker" {
			shard += "w" + strconv.Itoa(os.Getpid())
		}
	}
	regMu.Lock()
	defer regMu.Unlock()
	for id, r := range reg {
		r.mu.Lock()
		hs := make([]uint64, 0, len(r.nontrivial))
		for h := range r.nontrivial {
			hs = append(hs, h)
		}
		sort.Slice(hs, func(i, j int) bool { return hs[i] < hs[j] })
		hb := make([]byte, 8*len(hs))
		for i, h := range hs {
			binary.LittleEndian.PutUint64(hb[8*i:], h)
		}
		base := filepath.Join(dir, id+"."+shard)
		ff := fileFormat{ID: id, Rule: r.Rule, Evals: r.evals, Distinct: len(hs), HashFile: base + ".hashes",
			Classes: r.classes, Samples: r.samples, Excluded: r.excluded, Known: r.known,
			Exhaustive: r.exhaustive, Extra: r.extra}
		b, err := json.Marshal(ff)
		r.mu.Unlock()
		if err != nil {
			fmt.Fprintf(os.Stderr, "evid: marshal %s: %v\n", id, err)
			continue
		}
		// (written under a temporary name and renamed, so that a reader never sees half a file)
		os.WriteFile(base+".hashes", hb, 0o644)
		tmp := base + ".json.tmp" + strconv.Itoa(os.Getpid())
		if os.WriteFile(tmp, b, 0o644) == nil {
			os.Rename(tmp, base+".json")
		}
	}
}

// EnvInt reads an integer knob.
func EnvInt(name string, def int) int {
	if v := os.Getenv(name); v != "" {
		if n, err := strconv.Atoi(v); err == nil {
			return n
		}
	}
	return def
}

// Seed is VERIF_SEED (default 1).
func Seed() uint64 {
	if v := os.Getenv("VERIF_SEED"); v != "" {
		if n, err := strconv.ParseInt(v, 10, 64); err == nil {
			return uint64(n)
		}
	}
	return 1
}

// Mix is splitmix64 over (seed, index): the only source of "free" parameters
// in enumerations.
func Mix(seed, idx uint64) uint64 {
	z := seed + 0x9e3779b97f4a7c15*(idx+1)
	z = (z ^ (z >> 30)) * 0xbf58476d1ce4e5b9
	z = (z ^ (z >> 27)) * 0x94d049bb133111eb
	return z ^ (z >> 31)
}

// Thorough reports the tier.
func Thorough() bool { return os.Getenv("VERIF_TIER") == "thorough" }

// Scale returns quick or thorough depending on the tier, times VERIF_SCALE%.
func Scale(quick, thorough int) int {
	n := quick
	if Thorough() {
		n = thorough
	}
	if s := EnvInt("VERIF_SCALE", 100); s != 100 {
		n = n * s / 100
		if n < 1 {
			n = 1
		}
	}
	return n
}
