module verif/harness

go 1.26.8

require (
	nhooyr.io/websocket v0.0.0
	pgregory.net/rapid v1.3.0
)

replace nhooyr.io/websocket => /repo
