// Package wsx makes library client and server connections on a memconn
// transport, through the public API only: Dial with a custom RoundTripper whose
// 101 response body is the transport, Accept with a fake http.Hijacker.
package wsx

import (
	"bufio"
	"context"
	"crypto/sha1"
	"encoding/base64"
	"errors"
	"fmt"
	"net"
	"net/http"
	"strings"
	"time"

	"nhooyr.io/websocket"
	"verif/harness/memconn"
)

const guid = "258EAFA5-E914-47DA-95CA-C5AB0DC85B11"

// AcceptKey is base64(SHA-1(key ‖ GUID)) (RFC 6455 §4.2.2).
func AcceptKey(key string) string {
	h := sha1.Sum([]byte(key + guid))
	return base64.StdEncoding.EncodeToString(h[:])
}

type rtFunc func(*http.Request) (*http.Response, error)

func (f rtFunc) RoundTrip(r *http.Request) (*http.Response, error) { return f(r) }

// ClientCfg scripts the server side of a Dial.
type ClientCfg struct {
	Mode      websocket.CompressionMode
	Threshold int
	RespExt   string   // Sec-WebSocket-Extensions value of the response ("" = header absent)
	RespExts  []string // if non-nil: one header line per element (RespExt is ignored)
	Protos    []string
	RespProto string
	Header    http.Header
	Host      string
	URL       string
	Timeout   time.Duration // http.Client.Timeout (0 = none)
}

// Client is a dialled library connection and the harness's end of its transport.
type Client struct {
	Conn *websocket.Conn
	Peer *memconn.End
	Lib  *memconn.End
	Req  *http.Request
	Resp *http.Response
}

// Dial performs a scripted handshake.
func Dial(ctx context.Context, cfg ClientCfg) (*Client, error) {
	lib, peer := memconn.Pipe()
	cl := &Client{Peer: peer, Lib: lib}
	rt := rtFunc(func(r *http.Request) (*http.Response, error) {
		cl.Req = r
		h := http.Header{}
		h.Set("Connection", "Upgrade")
		h.Set("Upgrade", "websocket")
		h.Set("Sec-WebSocket-Accept", AcceptKey(r.Header.Get("Sec-WebSocket-Key")))
		if cfg.RespExts != nil {
			for _, v := range cfg.RespExts {
				h.Add("Sec-WebSocket-Extensions", v)
			}
		} else if cfg.RespExt != "" {
			h.Set("Sec-WebSocket-Extensions", cfg.RespExt)
		}
		if cfg.RespProto != "" {
			h.Set("Sec-WebSocket-Protocol", cfg.RespProto)
		}
		return &http.Response{
			Status: "101 Switching Protocols", StatusCode: 101,
			Proto: "HTTP/1.1", ProtoMajor: 1, ProtoMinor: 1,
			Header: h, Body: lib, Request: r,
		}, nil
	})
	u := cfg.URL
	if u == "" {
		u = "ws://verif.test/ws"
	}
	c, resp, err := websocket.Dial(ctx, u, &websocket.DialOptions{
		HTTPClient:           &http.Client{Transport: rt, Timeout: cfg.Timeout},
		HTTPHeader:           cfg.Header,
		Host:                 cfg.Host,
		Subprotocols:         cfg.Protos,
		CompressionMode:      cfg.Mode,
		CompressionThreshold: cfg.Threshold,
	})
	cl.Resp = resp
	if err != nil {
		lib.Close()
		return cl, err
	}
	cl.Conn = c
	return cl, nil
}

// RespWriter is a recording http.ResponseWriter + http.Hijacker.
type RespWriter struct {
	H        http.Header
	Code     int
	Body     []byte
	Hijacked bool
	lib      *memconn.End
	NoHijack bool
	// OnHeader, if set, runs once when the status line is decided (net/http puts a
	// 101 on the wire at this point, before the handler hijacks the connection).
	OnHeader func(code int, h http.Header)
	// WaitPending makes Hijack wait (in steps of 1 ms) up to this long for client
	// bytes to arrive first, so that they sit in the hijacked bufio.Reader the way
	// they do when a client starts sending as soon as it has seen the 101.
	WaitPending time.Duration
	// Deferred makes this a framework-style writer (gin): WriteHeader only notes the status, and
	// nothing is "on the wire" (Code stays 0) until WriteHeaderNow or a Write commits it.
	// Hijack commits nothing.
	Deferred bool
	pending  int
	// HeadInWriter makes this a server that builds its response in the connection's
	// bufio.Writer and flushes at the end of the request: the head of a committed response
	// is still in the bufio.Writer that Hijack hands over (the Hijacker contract allows
	// that; net/http happens to flush inside Hijack) and leaves with the new owner's first flush.
	HeadInWriter bool
	// ReaderSize > 0: the bufio.Reader that Hijack hands over has this size instead of bufio's default of 4096
	// (the Hijacker contract leaves it open; a control frame's payload may then be larger than the buffer).
	ReaderSize int
}

// WriteHeaderNow commits a status noted by WriteHeader (gin's ResponseWriter has this method).
func (w *RespWriter) WriteHeaderNow() {
	if w.Deferred && w.Code == 0 && w.pending != 0 {
		w.Deferred = false
		w.WriteHeader(w.pending)
		w.Deferred = true
	}
}

// NewRespWriter returns a recording writer whose Hijack hands out lib.
func NewRespWriter(lib *memconn.End) *RespWriter { return &RespWriter{H: http.Header{}, lib: lib} }

func (w *RespWriter) Header() http.Header { return w.H }
func (w *RespWriter) Write(p []byte) (int, error) {
	if w.Deferred {
		if w.pending == 0 {
			w.pending = 200
		}
		w.WriteHeaderNow()
	}
	if w.Code == 0 {
		w.Code = 200
	}
	w.Body = append(w.Body, p...)
	return len(p), nil
}
func (w *RespWriter) WriteHeader(code int) {
	if w.Deferred {
		if w.pending == 0 {
			w.pending = code
		}
		return
	}
	if w.Code == 0 {
		w.Code = code
		if w.OnHeader != nil {
			w.OnHeader(code, w.H.Clone())
		}
	}
}
func (w *RespWriter) Hijack() (net.Conn, *bufio.ReadWriter, error) {
	if w.NoHijack {
		return nil, nil, errors.New("wsx: hijack refused")
	}
	w.Hijacked = true
	for d := time.Duration(0); d < w.WaitPending && w.lib.InPending() == 0; d += time.Millisecond {
		time.Sleep(time.Millisecond)
	}
	br := bufio.NewReader(w.lib)
	if w.ReaderSize > 0 {
		br = bufio.NewReaderSize(w.lib, w.ReaderSize)
	}
	bw := bufio.NewWriter(w.lib)
	if w.lib.InPending() > 0 {
		br.Peek(1) // pipelined client bytes are already buffered, as in net/http
	}
	if w.HeadInWriter && w.Code != 0 {
		fmt.Fprintf(bw, "HTTP/1.1 %d %s\r\n", w.Code, http.StatusText(w.Code))
		w.H.Write(bw)
		bw.WriteString("\r\n")
	}
	return w.lib, bufio.NewReadWriter(br, bw), nil
}

// ServerCfg scripts the client side of an Accept.
type ServerCfg struct {
	Mode       websocket.CompressionMode
	Threshold  int
	Offer      string // Sec-WebSocket-Extensions value of the request ("" = absent)
	Offers     []string
	Protos     []string // server-supported
	ReqProtos  string
	Origin     string
	Host       string
	Patterns   []string
	Insecure   bool
	Pipelined  []byte // client bytes sent "in the same packet" as the request
	ReaderSize int    // see RespWriter.ReaderSize
}

// Server is an accepted library connection and the harness's end.
type Server struct {
	Conn *websocket.Conn
	Peer *memconn.End
	Lib  *memconn.End
	W    *RespWriter
	Req  *http.Request
}

// ValidRequest builds a well-formed upgrade request.
func ValidRequest() *http.Request {
	r, _ := http.NewRequest("GET", "http://verif.test/ws", nil)
	r.Header.Set("Connection", "Upgrade")
	r.Header.Set("Upgrade", "websocket")
	r.Header.Set("Sec-WebSocket-Version", "13")
	r.Header.Set("Sec-WebSocket-Key", "dGhlIHNhbXBsZSBub25jZQ==")
	return r
}

// Accept performs a scripted server handshake.
func Accept(cfg ServerCfg) (*Server, error) {
	r := ValidRequest()
	if cfg.Offer != "" {
		r.Header.Set("Sec-WebSocket-Extensions", cfg.Offer)
	}
	for _, o := range cfg.Offers {
		r.Header.Add("Sec-WebSocket-Extensions", o)
	}
	if cfg.ReqProtos != "" {
		r.Header.Set("Sec-WebSocket-Protocol", cfg.ReqProtos)
	}
	if cfg.Origin != "" {
		r.Header.Set("Origin", cfg.Origin)
	}
	if cfg.Host != "" {
		r.Host = cfg.Host
	}
	opts := &websocket.AcceptOptions{
		Subprotocols: cfg.Protos, InsecureSkipVerify: cfg.Insecure, OriginPatterns: cfg.Patterns,
		CompressionMode: cfg.Mode, CompressionThreshold: cfg.Threshold,
	}
	if cfg.ReaderSize > 0 {
		lib, peer := memconn.Pipe()
		if len(cfg.Pipelined) > 0 {
			peer.Write(cfg.Pipelined)
		}
		w := NewRespWriter(lib)
		w.ReaderSize = cfg.ReaderSize
		s, err := AcceptWith(w, r, opts)
		s.Peer = peer
		return s, err
	}
	return AcceptReq(r, opts, cfg.Pipelined)
}

// AcceptReq runs Accept on an arbitrary request.
func AcceptReq(r *http.Request, opts *websocket.AcceptOptions, pipelined []byte) (*Server, error) {
	lib, peer := memconn.Pipe()
	if len(pipelined) > 0 {
		peer.Write(pipelined)
	}
	s, err := AcceptOn(lib, r, opts)
	s.Peer = peer
	return s, err
}

// AcceptOn runs Accept with lib as the hijacked connection.
func AcceptOn(lib *memconn.End, r *http.Request, opts *websocket.AcceptOptions) (*Server, error) {
	return AcceptWith(NewRespWriter(lib), r, opts)
}

// AcceptWith runs Accept with a prepared writer.
func AcceptWith(w *RespWriter, r *http.Request, opts *websocket.AcceptOptions) (*Server, error) {
	lib := w.lib
	s := &Server{Lib: lib, W: w, Req: r}
	c, err := websocket.Accept(w, r, opts)
	if err != nil {
		if !w.Hijacked {
			lib.Close()
		}
		return s, err
	}
	s.Conn = c
	return s, nil
}

// Agreed reads a handshake *response* extension header the way RFC 7692 §7.1
// does: which side promised not to use context takeover.
type Agreed struct {
	Deflate     bool
	ClientNoCtx bool
	ServerNoCtx bool
}

// ParseAgreed interprets the Sec-WebSocket-Extensions response value(s).
func ParseAgreed(vals []string) Agreed {
	var a Agreed
	for _, v := range vals {
		for _, ext := range strings.Split(v, ",") {
			parts := strings.Split(ext, ";")
			if strings.TrimSpace(parts[0]) != "permessage-deflate" {
				continue
			}
			a.Deflate = true
			for _, p := range parts[1:] {
				switch strings.ToLower(strings.TrimSpace(p)) {
				case "client_no_context_takeover":
					a.ClientNoCtx = true
				case "server_no_context_takeover":
					a.ServerNoCtx = true
				}
			}
			return a
		}
	}
	return a
}

// SenderTakeover says whether the given sender role may keep its window.
func (a Agreed) SenderTakeover(senderIsClient bool) bool {
	if !a.Deflate {
		return false
	}
	if senderIsClient {
		return !a.ClientNoCtx
	}
	return !a.ServerNoCtx
}
