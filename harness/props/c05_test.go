package props

import (
	"bytes"
	"context"
	"errors"
	"fmt"
	"io"
	"runtime"
	"strings"
	"sync"
	"sync/atomic"
	"testing"
	"testing/synctest"
	"time"

	"nhooyr.io/websocket"
	"pgregory.net/rapid"
	"verif/harness/evid"
	"verif/harness/ref"
)

// C05 — concurrent use keeps frames atomic, messages unmixed and is free of data races.

type c05Case struct {
	Mode      c03Mode
	Threshold int
	Writers   []c16Writer
	Pingers   []c16Writer
	Closer    string // none | Close | CloseNow | closeread-data | reader-ctx
	CloseAt   time.Duration
	GateAt    time.Duration
	GateFor   time.Duration
	GateBytes int64
	Capacity  int
	InLen     int // inbound message read by the racing reader
	InFrags   int
	InBuf     int
	InComp    bool
	PeerPings int
}

func genC05(rt *rapid.T) c05Case {
	var c c05Case
	c.Mode = rapid.SampledFrom(c16Modes).Draw(rt, "mode")
	c.Threshold = rapid.SampledFrom([]int{0, 1, 5000}).Draw(rt, "threshold")
	nw := rapid.IntRange(2, 5).Draw(rt, "nWriters")
	parallel := rapid.Bool().Draw(rt, "parallel")
	dur := func(label string) time.Duration {
		if parallel {
			return 0
		}
		return drawDur(rt, label)
	}
	for i := 0; i < nw; i++ {
		w := c16Writer{Start: dur("wStart")}
		for j := rapid.IntRange(1, 5).Draw(rt, "nMsgs"); j > 0; j-- {
			m := c16Msg{Len: rapid.SampledFrom([]int{8, 100, 4000, 4096, 9000, 30000}).Draw(rt, "len"), Gap: dur("gap")}
			m.UseWriter = rapid.Bool().Draw(rt, "useWriter")
			m.Timeout = rapid.SampledFrom([]time.Duration{0, 0, 0, 50 * time.Millisecond, 2 * time.Second}).Draw(rt, "writerTimeout")
			m.YieldAt = rapid.SampledFrom([]int{0, 0, 1, 2, 3, 4, 5, 6, 8}).Draw(rt, "yieldAt")
			if m.UseWriter {
				for k := rapid.IntRange(1, 4).Draw(rt, "nChunks"); k > 0; k-- {
					m.Chunks = append(m.Chunks, rapid.SampledFrom([]int{0, 1, 150, 4096, 6000}).Draw(rt, "chunk"))
				}
				m.ChunkGap = dur("chunkGap")
			}
			w.Msgs = append(w.Msgs, m)
		}
		c.Writers = append(c.Writers, w)
	}
	for i := rapid.IntRange(0, 2).Draw(rt, "nPingers"); i > 0; i-- {
		p := c16Writer{Start: dur("pStart")}
		for j := rapid.IntRange(1, 3).Draw(rt, "nPings"); j > 0; j-- {
			p.Msgs = append(p.Msgs, c16Msg{Gap: dur("pGap")})
		}
		c.Pingers = append(c.Pingers, p)
	}
	if rapid.IntRange(0, 3).Draw(rt, "stuckControlFrame") == 0 {
		// template: the transport stops after a few bytes, a Ping gets stuck holding the frame
		// lock, a streaming writer with a short deadline reaches its Close meanwhile, and
		// someone else writes after the transport has recovered
		c.GateAt, c.GateFor, c.GateBytes = 10*time.Millisecond, time.Second, int64(rapid.IntRange(0, 3).Draw(rt, "stuckAfter"))
		c.Pingers = append(c.Pingers, c16Writer{Start: 20 * time.Millisecond, Msgs: []c16Msg{{}}})
		c.Writers = append(c.Writers,
			c16Writer{Start: 0, Msgs: []c16Msg{{Len: 300, UseWriter: true, Chunks: []int{100}, ChunkGap: 40 * time.Millisecond, Timeout: time.Duration(rapid.IntRange(60, 400).Draw(rt, "closeDeadlineMs")) * time.Millisecond}}},
			c16Writer{Start: 2 * time.Second, Msgs: []c16Msg{{Len: 100}, {Len: 4000, Gap: time.Second}}})
	}
	c.Closer = rapid.SampledFrom([]string{"none", "none", "Close", "CloseNow", "closeread-data", "reader-ctx", "Close+peer-close", "Close+peer-close"}).Draw(rt, "closer")
	c.CloseAt = drawDur(rt, "closeAt")
	if c.GateFor == 0 && rapid.IntRange(0, 2).Draw(rt, "gate") == 0 {
		c.GateAt = drawDur(rt, "gateAt")
		c.GateFor = rapid.SampledFrom([]time.Duration{time.Millisecond, time.Second, 3 * time.Second}).Draw(rt, "gateFor")
		c.GateBytes = int64(rapid.SampledFrom([]int{0, 1, 3, 9, 100, 4200, 5000, 9000}).Draw(rt, "gateBytes"))
	}
	c.Capacity = rapid.SampledFrom([]int{0, 0, 1, 64, 4096}).Draw(rt, "capacity")
	c.InLen = rapid.SampledFrom([]int{0, 2000, 30000, 200000}).Draw(rt, "inLen")
	c.InFrags = rapid.IntRange(1, 5).Draw(rt, "inFrags")
	c.InBuf = rapid.SampledFrom([]int{1, 16, 1000, 8192}).Draw(rt, "inBuf")
	c.InComp = rapid.Bool().Draw(rt, "inComp")
	c.PeerPings = rapid.IntRange(0, 3).Draw(rt, "peerPings")
	return c
}

// yieldCtx is a context whose Done method, on its k-th call, yields the processor
// a few hundred times before answering. The library consults ctx.Done() wherever
// it waits for one of its locks or for the transport, so this is a harness-owned
// preemption point exactly there, without any hook in the library. (It must not
// sleep: the call sites hold library locks, and in a synctest bubble virtual time
// cannot advance while another goroutine waits on a sync.Mutex - such waits are
// not durable - which froze the clock and deadlocked the case.)
type yieldCtx struct {
	context.Context
	mu    *sync.Mutex
	calls *int
	at    int
}

func (y yieldCtx) Done() <-chan struct{} {
	y.mu.Lock()
	*y.calls++
	hit := *y.calls == y.at
	y.mu.Unlock()
	if hit {
		for i := 0; i < 300; i++ {
			runtime.Gosched()
		}
	}
	return y.Context.Done()
}

func newYieldCtx(parent context.Context, at int) context.Context {
	if at <= 0 {
		return parent
	}
	n := 0
	return yieldCtx{Context: parent, mu: &sync.Mutex{}, calls: &n, at: at}
}

type c05Result struct {
	NonTrivial, CloserMid, Gate, Overlap bool
	Messages                             int
}

// c05PeerClose: the Close frame the peer sends in the "Close+peer-close" cases (a reason long enough to tell a blend apart).
var c05PeerClose = ref.ClosePayload(1001, "the peer is going away - "+strings.Repeat("z", 60))

func runC05(t fataler, c c05Case) (string, c05Result) {
	var res c05Result
	e := newEnv(t)
	defer e.Teardown()
	lc, err := e.open(connSpec{Client: c.Mode.Client, Mode: c.Mode.Mode, Threshold: c.Threshold, Ext: c.Mode.Ext})
	if err != nil {
		return "handshake: " + err.Error(), res
	}
	conn := lc.C
	conn.SetReadLimit(1 << 22)
	p := lc.Peer
	if c.Capacity > 0 {
		lc.Lib.SetOutCapacity(c.Capacity)
	}
	p.onFrame = func(f ref.Frame) {
		switch f.Opcode {
		case ref.OpPing:
			p.send(ref.Frame{Fin: true, Opcode: ref.OpPong, Payload: f.Payload})
		case ref.OpClose:
			p.send(ref.Frame{Fin: true, Opcode: ref.OpClose, Payload: f.Payload})
		}
	}
	p.start(e)
	base := context.Background()

	type wrec struct {
		w, n    int
		payload []byte // pristine copy
		orig    []byte // the slice handed to the library
		err     error
		start   time.Time
		end     time.Time
		multi   bool
	}
	var mu sync.Mutex
	var recs []*wrec
	midMod := ""

	// the racing reader: one inbound message read in small buffers, then keeps reading
	inPayload := tagged(31, 7, c.InLen)
	var readGot []byte
	var readErr error
	readCtx, readCancel := context.WithCancel(base)
	defer readCancel()
	var readerDone <-chan struct{}
	var crCtx context.Context
	if c.Closer == "closeread-data" {
		crCtx = conn.CloseRead(base)
		_ = crCtx
	} else {
		readerDone = e.Call(func() {
			_, r, err := conn.Reader(readCtx)
			if err != nil {
				readErr = err
				return
			}
			buf := make([]byte, c.InBuf)
			for {
				n, err := r.Read(buf)
				readGot = append(readGot, buf[:n]...)
				if err != nil {
					readErr = err
					break
				}
			}
			if readErr == io.EOF {
				for {
					if _, _, err := conn.Read(readCtx); err != nil {
						return
					}
				}
			}
		})
	}
	// the peer's side of the inbound traffic
	e.Go(func() {
		def := ref.NewDeflater(lc.Agreed.SenderTakeover(!c.Mode.Client))
		raw := inPayload
		comp := c.InComp && lc.Agreed.Deflate
		if comp {
			raw = def.Message(inPayload, ref.DVSync)
		}
		if c.Closer == "closeread-data" {
			// only control frames until the closer fires
			for i := 0; i < c.PeerPings; i++ {
				p.send(ref.Frame{Fin: true, Opcode: ref.OpPing, Payload: []byte{byte(i)}})
				if !e.sleep(time.Millisecond) {
					return
				}
			}
			return
		}
		per := len(raw)/c.InFrags + 1
		for j, off := 0, 0; j < c.InFrags; j++ {
			end := off + per
			if end > len(raw) || j == c.InFrags-1 {
				end = len(raw)
			}
			f := ref.Frame{Fin: j == c.InFrags-1, Payload: raw[off:end]}
			if j == 0 {
				f.Opcode, f.Rsv1 = ref.OpBinary, comp
			}
			if p.send(f) != nil {
				return
			}
			off = end
			if j < c.PeerPings {
				p.send(ref.Frame{Fin: true, Opcode: ref.OpPing, Payload: []byte{byte(j)}})
			}
			if !e.sleep(time.Duration(j) * 10 * time.Millisecond) {
				return
			}
		}
	})

	var actors []<-chan struct{}
	for wi, w := range c.Writers {
		wi, w := wi, w
		actors = append(actors, e.Call(func() {
			if !e.sleep(w.Start) {
				return
			}
			for mi, m := range w.Msgs {
				if !e.sleep(m.Gap) {
					return
				}
				payload := tagged(wi, mi, m.Len)
				keep := append([]byte(nil), payload...)
				r := &wrec{w: wi, n: mi, payload: keep, orig: payload, start: time.Now(), multi: m.Len > 4096 || len(m.Chunks) > 1}
				mu.Lock()
				recs = append(recs, r)
				mu.Unlock()
				var err error
				wctx := newYieldCtx(base, m.YieldAt)
				if m.Timeout > 0 {
					var cancel context.CancelFunc
					wctx, cancel = context.WithTimeout(wctx, m.Timeout)
					defer cancel()
				}
				if !m.UseWriter {
					err = conn.Write(wctx, websocket.MessageBinary, payload)
				} else {
					var wr io.WriteCloser
					wr, err = conn.Writer(wctx, websocket.MessageBinary)
					if err == nil {
						rest := payload
						for _, ch := range m.Chunks {
							if ch > len(rest) {
								ch = len(rest)
							}
							if _, err = wr.Write(rest[:ch]); err != nil {
								break
							}
							rest = rest[ch:]
							if !e.sleep(m.ChunkGap) {
								err = context.Canceled
								break
							}
						}
						if err == nil {
							if _, err = wr.Write(rest); err == nil {
								err = wr.Close()
							}
						}
					}
				}
				mu.Lock()
				r.err, r.end = err, time.Now()
				mu.Unlock()
				if !bytes.Equal(payload, keep) {
					mu.Lock()
					r.err = fmt.Errorf("caller buffer modified")
					mu.Unlock()
				}
				if err != nil {
					return
				}
			}
		}))
	}
	for _, pg := range c.Pingers {
		pg := pg
		actors = append(actors, e.Call(func() {
			if !e.sleep(pg.Start) {
				return
			}
			for _, m := range pg.Msgs {
				if !e.sleep(m.Gap) {
					return
				}
				pctx, cancel := context.WithTimeout(base, 4*time.Second)
				err := conn.Ping(pctx)
				cancel()
				if err != nil {
					return
				}
			}
		}))
	}
	if c.GateFor > 0 {
		e.Go(func() {
			if !e.sleep(c.GateAt) {
				return
			}
			lc.End.SetInBudget(c.GateBytes)
			if e.sleep(c.GateFor) {
				// the writes in flight are held in the transport right now: the slices their
				// callers handed over must look exactly as they were handed over (another
				// goroutine may be sending the same slice elsewhere at this moment). Virtual
				// time has just advanced, so every writer that is in a call is blocked.
				mu.Lock()
				for _, r := range recs {
					if r.end.IsZero() && midMod == "" && !bytes.Equal(r.orig, r.payload) {
						midMod = fmt.Sprintf("writer %d seq %d (%d bytes): the caller's buffer differs from what the caller handed over WHILE the write is held up in the transport (first difference at %d)", r.w, r.n, len(r.payload), firstDiff(r.orig, r.payload))
					}
				}
				mu.Unlock()
				lc.End.SetInBudget(-1)
			}
		})
	}
	var closerAt time.Time
	closerDone := e.Call(func() {
		if c.Closer == "none" {
			return
		}
		if !e.sleep(c.CloseAt) {
			return
		}
		closerAt = time.Now()
		switch c.Closer {
		case "Close":
			conn.Close(websocket.StatusNormalClosure, "closer")
		case "Close+peer-close":
			// two producers of a Close frame at the same moment: the application's Close and the reader, which
			// echoes the Close frame the peer sends just now (typically both queue behind a data frame)
			p.send(ref.Frame{Fin: true, Opcode: ref.OpClose, Payload: c05PeerClose})
			conn.Close(websocket.StatusNormalClosure, "closer")
		case "CloseNow":
			conn.CloseNow()
		case "closeread-data":
			p.send(ref.Frame{Fin: true, Opcode: ref.OpBinary, Payload: []byte("data for a CloseRead connection")})
		case "reader-ctx":
			readCancel()
		}
	})
	if !within(closerDone, 120*time.Second) {
		return "the closer did not finish within 120 s", res
	}
	// Let the schedule play out (the longest one is well under two minutes of
	// virtual time), then the user closes. A writer whose context expired while
	// it waited for a lock leaves its message unfinished and the message lock
	// taken, so later writers legitimately block until this Close.
	e.sleep(150 * time.Second)
	lc.End.SetInBudget(-1)
	fd := e.Call(func() { conn.Close(websocket.StatusNormalClosure, "end") })
	if !within(fd, 60*time.Second) {
		return "final Close did not return", res
	}
	for _, a := range actors {
		if !within(a, 60*time.Second) {
			return "a writer or pinger is still blocked 60 s after the connection was closed", res
		}
	}
	if readerDone != nil && !within(readerDone, 30*time.Second) {
		return "the reader did not return after the connection was closed", res
	}
	if !p.waitEOF(60 * time.Second) {
		return "transport still open after Close", res
	}
	if ps := e.Panics(); len(ps) > 0 {
		return "library panicked: " + ps[0], res
	}
	mu.Lock()
	mm := midMod
	mu.Unlock()
	if mm != "" {
		return mm, res
	}
	// --- the wire ---
	wire := lc.End.InRecording()
	rep, verr := ref.ValidateStream(wire, ref.StreamOpts{FromClient: c.Mode.Client, Deflate: lc.Agreed.Deflate, Takeover: lc.Agreed.SenderTakeover(c.Mode.Client)}, true)
	if verr != nil {
		return fmt.Sprintf("the emitted byte stream is not a well-formed frame stream (frames torn or interleaved?): %v", verr), res
	}
	res.Messages = len(rep.Messages)
	if len(rep.Closes) > 0 && len(rep.Closes[0]) >= 2 {
		// A Close frame with a code the application or the peer chose carries exactly what one of them asked
		// for: the closer's payload, the final Close's, or the echo of the peer's - never a blend of two.
		cp := rep.Closes[0]
		if code := int(cp[0])<<8 | int(cp[1]); code == 1000 || code == 1001 {
			ok := false
			for _, want := range [][]byte{ref.ClosePayload(1000, "closer"), ref.ClosePayload(1000, "end"), c05PeerClose} {
				ok = ok || bytes.Equal(cp, want)
			}
			if !ok {
				return fmt.Sprintf("the Close frame on the wire carries code %d and reason %q: nobody asked for that (the closer: 1000 \"closer\", the final Close: 1000 \"end\", the peer's Close frame: %q)", code, cp[2:], c05PeerClose[2:]), res
			}
		}
	}
	mu.Lock()
	defer mu.Unlock()
	seen := map[[2]int]bool{}
	lastSeq := map[int]int{}
	for i, m := range rep.Messages {
		if len(m.Payload) < 8 {
			return fmt.Sprintf("message %d on the wire has %d bytes: not one of the written messages", i, len(m.Payload)), res
		}
		w, n := int(m.Payload[0]&0x1f), int(m.Payload[1])|int(m.Payload[2])<<8
		var r *wrec
		for _, x := range recs {
			if x.w == w && x.n == n {
				r = x
			}
		}
		if r == nil || !bytes.Equal(m.Payload, r.payload) {
			return fmt.Sprintf("message %d on the wire (%d bytes, tag writer %d seq %d) does not equal any written message: messages mixed", i, len(m.Payload), w, n), res
		}
		if seen[[2]int{w, n}] {
			return fmt.Sprintf("message writer %d seq %d appears twice on the wire", w, n), res
		}
		seen[[2]int{w, n}] = true
		if last, ok := lastSeq[w]; ok && n < last {
			return fmt.Sprintf("writer %d: message %d arrived after message %d", w, n, last), res
		}
		lastSeq[w] = n
	}
	for _, r := range recs {
		if r.err == nil && !r.end.IsZero() && !seen[[2]int{r.w, r.n}] {
			return fmt.Sprintf("writer %d seq %d: the write call returned nil but the message is not on the wire", r.w, r.n), res
		}
		if r.err != nil && r.err.Error() == "caller buffer modified" {
			return fmt.Sprintf("writer %d seq %d: the caller's buffer was modified", r.w, r.n), res
		}
	}
	// the racing reader
	if readerDone != nil {
		if !bytes.HasPrefix(inPayload, readGot) {
			return fmt.Sprintf("the racing reader returned %d bytes that are not a prefix of the inbound message (first difference at %d)", len(readGot), firstDiff(readGot, inPayload)), res
		}
		if readErr == io.EOF && len(readGot) != len(inPayload) {
			return fmt.Sprintf("the racing reader reported the message complete after %d of %d bytes", len(readGot), len(inPayload)), res
		}
	}
	// classification
	for i, a := range recs {
		for _, b := range recs[i+1:] {
			if a.w != b.w && a.start.Before(b.end) && b.start.Before(a.end) || a.w != b.w && a.start.Equal(b.start) {
				res.Overlap = true
			}
		}
		if !closerAt.IsZero() && a.multi && !a.start.After(closerAt) && (a.end.IsZero() || !a.end.Before(closerAt)) {
			res.CloserMid = true
		}
	}
	res.Gate = c.GateFor > 0
	multi := false
	for _, r := range recs {
		multi = multi || r.multi
	}
	res.NonTrivial = len(c.Writers) >= 2 && res.Overlap && multi
	return "", res
}

func TestC05(t *testing.T) {
	rec := evid.For("C05")
	rec.Rule = "rapid-generated concurrent cases inside a synctest bubble: 2-5 writers each sending a numbered series of provenance-tagged messages by Write or a streaming Writer with chunk lists (scheduled at drawn virtual instants with pauses, or all free-running at once), 0-2 pingers, one reader that answers the peer's Pings while reading a large fragmented (optionally compressed) inbound message in small buffers, a closer {none, Close, CloseNow, CloseRead + data message, expiry of the reader's context} firing at a drawn instant, an optional transport gate that accepts only k more bytes (a frame held half-written) and a bounded transport buffer; role x compression mode x threshold. The same cases run under the race detector. Non-trivial: >=2 writers with overlapping activity and >=1 multi-frame message. distinct = hash of the case."
	checkProp(t, func(rt *rapid.T) {
		c := genC05(rt)
		var msg string
		var res c05Result
		rapid.SyncTest(rt, func(rt *rapid.T) { msg, res = runC05(rt, c) })
		classes := []string{"mode:" + c.Mode.Name, "closer:" + c.Closer}
		if res.CloserMid {
			classes = append(classes, "closer-fired-mid-message")
		}
		if res.Gate {
			classes = append(classes, "gate")
		}
		if res.Overlap {
			classes = append(classes, "overlapping-writers")
		}
		if c.Mode.Mode != websocket.CompressionDisabled {
			classes = append(classes, "compression-on")
		}
		rec.Case(res.NonTrivial, fmt.Sprintf("%+v", c), classes...)
		if rec.WantSample() {
			rec.Sample(fmt.Sprintf("%+v", c))
		}
		if msg != "" {
			rt.Fatalf("C05 %+v: %s", c, msg)
		}
	})
}

// Regression replay (finding D17): Close discards the rest of a message that a
// racing reader is in the middle of; when the handshake wait ends before the
// connection is closed (here: the peer answers the Close frame with a protocol
// violation), the reader must fail, not go on with frame headers taken for payload.
func TestC05Regress(t *testing.T) {
	bad := ""
	for iter := 0; iter < 400 && bad == ""; iter++ {
		synctest.Test(t, func(t *testing.T) {
			e := newEnv(t)
			defer e.Teardown()
			lc, err := e.open(connSpec{Client: iter%2 == 1})
			if err != nil {
				bad = err.Error()
				return
			}
			p := lc.Peer
			payload := tagged(9, iter, 12000)
			p.onFrame = func(f ref.Frame) {
				if f.Opcode == ref.OpClose {
					p.send(ref.Frame{Fin: true, Opcode: 0x3, Payload: []byte("violation instead of an echo")})
					p.send(ref.Frame{Fin: false, Opcode: ref.OpCont, Payload: payload[4000:8000]})
					p.send(ref.Frame{Fin: true, Opcode: ref.OpCont, Payload: payload[8000:]})
				}
			}
			p.start(e)
			p.send(ref.Frame{Fin: false, Opcode: ref.OpBinary, Payload: payload[:4000]})
			var got []byte
			started := make(chan struct{})
			rd := e.Call(func() {
				_, r, err := lc.C.Reader(context.Background())
				if err != nil {
					return
				}
				buf := make([]byte, 64)
				for i := 0; ; i++ {
					n, err := r.Read(buf)
					got = append(got, buf[:n]...)
					if i == 10 {
						close(started)
					}
					if err != nil {
						return
					}
				}
			})
			<-started
			cd := e.Call(func() { lc.C.Close(websocket.StatusNormalClosure, "") })
			if !within(cd, 30*time.Second) || !within(rd, 30*time.Second) {
				bad = "Close or the racing reader did not return"
				return
			}
			if !bytes.HasPrefix(payload, got) {
				bad = fmt.Sprintf("iteration %d: the reader racing with Close returned %d bytes that are not a prefix of its message (first difference at %d)", iter, len(got), firstDiff(got, payload))
			}
		})
	}
	evid.For("C05").Case(true, "regress|D17", "regression-replay")
	if bad != "" {
		failCase(t, "C05", map[string]any{"regress": "D17-reader-racing-close-discard"}, "%s", bad)
	}
}

// TestC05StaleHandleRace: real parallelism, real clock (no bubble: the window is a few
// nanoseconds between two atomic stores and has no blocking point in it). Goroutine A streams
// messages and calls Close twice on each writer - the explicit Close and the deferred one -,
// goroutine B streams messages of its own. A's second Close lands, round after round, at the
// very moment B opens its next message. Every message the peer receives is exactly one that
// was written; none is cut short, none is empty, none arrives twice. A free-running search:
// it can miss, it cannot raise a false alarm (the oracle is the stream validator).
func TestC05StaleHandleRace(t *testing.T) {
	rec := evid.For("C05")
	rounds := evid.Scale(6000, 40000)
	for _, client := range []bool{false, true} {
		msg := func() string {
			e := newEnv(t)
			defer e.Teardown()
			lc, err := e.open(connSpec{Client: client})
			if err != nil {
				return "handshake: " + err.Error()
			}
			p := lc.Peer
			p.onFrame = func(f ref.Frame) {
				if f.Opcode == ref.OpClose {
					p.send(ref.Frame{Fin: true, Opcode: ref.OpClose, Payload: f.Payload})
				}
			}
			p.start(e)
			// (a time limit for the failure case: a message lock that was given away leaves the other goroutine waiting for ever)
			ctx, cancel := context.WithTimeout(context.Background(), 30*time.Second)
			defer cancel()
			var wg sync.WaitGroup
			var aerr, berr error
			var phase atomic.Int64 // 3i+1: A is done with message i and keeps closing its handle; 3i+2: B has its writer; 3i+3: B is done
			staleNil := 0
			wg.Add(2)
			go func() {
				defer wg.Done()
				for i := int64(0); i < int64(rounds); i++ {
					w, err := lc.C.Writer(ctx, websocket.MessageBinary)
					if err != nil {
						aerr = err
						phase.Store(1 << 60)
						return
					}
					w.Write([]byte{'A', byte(i), byte(i >> 8), 1})
					if err := w.Close(); err != nil {
						aerr = err
						phase.Store(1 << 60)
						return
					}
					phase.Store(3*i + 1)
					for phase.Load() == 3*i+1 && ctx.Err() == nil { // the deferred Close, again and again, while B opens its message
						if w.Close() == nil {
							staleNil++
						}
					}
					for p := phase.Load(); p != 3*i+3 && p < 1<<60 && ctx.Err() == nil; p = phase.Load() {
					}
				}
			}()
			go func() {
				defer wg.Done()
				for i := int64(0); i < int64(rounds); i++ {
					for p := phase.Load(); p != 3*i+1; p = phase.Load() {
						if p >= 1<<60 || ctx.Err() != nil {
							return
						}
					}
					w, err := lc.C.Writer(ctx, websocket.MessageBinary)
					phase.Store(3*i + 2)
					if err == nil {
						_, err = w.Write([]byte{'B', byte(i), byte(i >> 8)})
					}
					if err == nil {
						_, err = w.Write([]byte{2})
					}
					if err == nil {
						err = w.Close()
					}
					if err != nil {
						berr = fmt.Errorf("round %d: %w", i, err)
						phase.Store(1 << 60)
						return
					}
					phase.Store(3*i + 3)
				}
			}()
			wg.Wait()
			// Running out of the 30 s is not a finding by itself (a loaded machine is slow): what was observed up to
			// then is judged. A message lock that was given away shows before that, as a Close that returned nil or
			// as a writer's error.
			incomplete := ctx.Err() != nil
			if incomplete {
				rec.Class("stale-handle-race-cut-short-by-its-time-limit", 1)
				if aerr != nil && errors.Is(aerr, context.DeadlineExceeded) {
					aerr = nil
				}
				if berr != nil && errors.Is(berr, context.DeadlineExceeded) {
					berr = nil
				}
			}
			lc.C.Close(websocket.StatusNormalClosure, "")
			p.waitEOF(10 * time.Second)
			if staleNil > 0 {
				return fmt.Sprintf("%d of %d second Close calls on a finished writer returned nil", staleNil, rounds)
			}
			if aerr != nil || berr != nil {
				return fmt.Sprintf("a writer failed: A: %v, B: %v (a Close on A's finished handle acted on B's open message?)", aerr, berr)
			}
			rep, verr := ref.ValidateStream(lc.End.InRecording(), ref.StreamOpts{FromClient: client}, false)
			if verr != nil {
				return "emitted stream not well-formed: " + verr.Error()
			}
			if !incomplete && len(rep.Messages) != 2*rounds {
				return fmt.Sprintf("%d messages on the wire, %d written", len(rep.Messages), 2*rounds)
			}
			for i, m := range rep.Messages {
				if len(m.Payload) != 4 || (m.Payload[0] != 'A' && m.Payload[0] != 'B') || m.Payload[3] != m.Payload[0]-'A'+1 {
					return fmt.Sprintf("message %d on the wire is %q: not one of the messages written (cut short or merged)", i, m.Payload)
				}
			}
			return ""
		}()
		rec.Case(true, fmt.Sprintf("stalerace|client=%v|%d", client, rounds), "stale-writer-handle-closed-while-another-goroutine-opens-the-next-message")
		if msg != "" {
			failCase(t, "C05", map[string]any{"client": client, "rounds": rounds}, "%s", msg)
		}
	}
}
