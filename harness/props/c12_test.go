package props

import (
	"fmt"
	"strconv"
	"strings"
	"testing"

	"nhooyr.io/websocket"
	"pgregory.net/rapid"
	"verif/harness/evid"
	"verif/harness/wsx"
)

// C12 — cross-origin requests are refused unless the origin is explicitly authorised.

// originAuthority is the harness's own reading of an Origin value: scheme "://",
// then the authority up to the first "/", "?" or "#", userinfo stripped at the
// last "@". ok is false when the value has no such shape (opaque, schemeless,
// garbage).
func originAuthority(origin string) (host string, ok bool) {
	if strings.HasPrefix(origin, "//") {
		origin = "x:" + origin // a scheme-relative reference names its authority all the same
	}
	i := strings.Index(origin, "://")
	if i <= 0 {
		return "", false
	}
	scheme := origin[:i]
	for j, r := range scheme {
		isAlpha := r >= 'a' && r <= 'z' || r >= 'A' && r <= 'Z'
		if !(isAlpha || j > 0 && (r >= '0' && r <= '9' || r == '+' || r == '-' || r == '.')) {
			return "", false
		}
	}
	rest := origin[i+3:]
	if k := strings.IndexAny(rest, "/?#"); k >= 0 {
		rest = rest[:k]
	}
	if k := strings.LastIndexByte(rest, '@'); k >= 0 {
		rest = rest[k+1:]
	}
	// %XX in a host is the same host for every URL parser
	var b strings.Builder
	for i := 0; i < len(rest); i++ {
		if rest[i] == '%' && i+2 < len(rest) && ishex(rest[i+1]) && ishex(rest[i+2]) {
			b.WriteByte(unhex(rest[i+1])<<4 | unhex(rest[i+2]))
			i += 2
			continue
		}
		b.WriteByte(rest[i])
	}
	return b.String(), true
}

func ishex(c byte) bool {
	return c >= '0' && c <= '9' || c >= 'a' && c <= 'f' || c >= 'A' && c <= 'F'
}

func unhex(c byte) byte {
	switch {
	case c >= 'a':
		return c - 'a' + 10
	case c >= 'A':
		return c - 'A' + 10
	}
	return c - '0'
}

// glob matches pattern against s with "*" (any run) and "?" (any one
// character), case-insensitively — the subset of filepath.Match the generator uses.
func glob(pattern, s string) bool {
	p, t := []rune(strings.ToLower(pattern)), []rune(strings.ToLower(s)) // "?" is one character, not one byte
	// iterative matcher with single-star backtracking: O(len(p) * len(t))
	i, j, star, mark := 0, 0, -1, 0
	for j < len(t) {
		switch {
		case i < len(p) && (p[i] == '?' || p[i] == t[j]) && p[i] != '*':
			i++
			j++
		case i < len(p) && p[i] == '*':
			star, mark = i, j
			i++
		case star >= 0:
			mark++
			i, j = star+1, mark
		default:
			return false
		}
	}
	for i < len(p) && p[i] == '*' {
		i++
	}
	return i == len(p)
}

var c12Hosts = []string{"example.com", "Example.COM", "api.example.com", "wiki.internal:8443", "chat.example.com", "example.com:8080", "localhost", "localhost:3000", "127.0.0.1", "127.0.0.1:8443", "[::1]", "[::1]:9000", "a.b.c.example.org", "xn--bcher-kva.example"}

type c12Case struct {
	Host     string
	Origin   string // "" = header absent
	Patterns []string
	Insecure bool
	Family   string
	// Built says the origin was constructed as a proper RFC 6454 serialisation
	// of BuiltHost (scheme://host[:port]), so acceptance can be demanded.
	Built     bool
	BuiltHost string
	// More are further Origin header lines behind the first one. A browser sends
	// exactly one; net/http's Header.Get - and so every Go handler - reads the
	// first, and that is the line the verdict is about.
	More []string
	// NilOpts: Accept is called with nil options (only drawn without patterns and without InsecureSkipVerify)
	NilOpts bool
	// Forwarded: further request headers naming hosts (X-Forwarded-Host, Forwarded, X-Original-Host):
	// the client controls them as much as it controls Origin, so they authorise nothing.
	Forwarded [][2]string
}

// badPattern: syntactically invalid for path.Match; such a pattern authorises nobody.
func badPattern(p string) bool {
	return strings.Contains(p, "[") || strings.HasSuffix(p, "\\")
}

func swapCase(s string) string {
	b := []byte(s)
	for i, c := range b {
		if i%2 == 0 && c >= 'a' && c <= 'z' {
			b[i] = c - 32
		}
	}
	return string(b)
}

func genC12(rt *rapid.T) c12Case {
	var c c12Case
	c.Host = rapid.SampledFrom(c12Hosts).Draw(rt, "host")
	host := c.Host
	bare := host
	if i := strings.LastIndexByte(host, ':'); i > 0 && !strings.HasSuffix(host, "]") {
		bare = host[:i]
	}
	scheme := rapid.SampledFrom([]string{"http", "https", "HTTP", "ws", "chrome-extension"}).Draw(rt, "scheme")
	evil := rapid.SampledFrom([]string{"evil.com", "evil.example.net", "attacker.io:8080", "10.0.0.1"}).Draw(rt, "evil")
	// pattern sets
	for i := rapid.IntRange(0, 3).Draw(rt, "nPatterns"); i > 0; i-- {
		c.Patterns = append(c.Patterns, rapid.SampledFrom([]string{"*.example.com", "example.com", "trusted.org", "*.trusted.org", "TRUSTED.org", "app-?.trusted.org", "*", "localhost:*", "*:8080", "evil.com", "*.example.com", "trusted.org", "[", "[a-", "cdn[0-9.example.com", "trusted.org\\", "https://*.example.com", "http://*", "*://*.trusted.org", "https://example.com"}).Draw(rt, "pattern"))
	}
	c.Insecure = rapid.IntRange(0, 9).Draw(rt, "insecure") == 0
	nilOpts := rapid.Bool().Draw(rt, "nilOptions")
	c.Family = rapid.SampledFrom([]string{"absent", "same-host", "same-host-case", "pattern-authorised", "other-host", "userinfo-host-at-evil", "userinfo-evil-at-host", "port-mismatch", "suffix-lookalike", "prefix-lookalike", "subdomain-lookalike", "host-in-path", "host-in-query", "host-in-fragment", "null", "schemeless", "opaque", "whitespace", "garbage", "trailing-dot", "double-at", "backslash", "empty-authority", "long-lookalike", "long-authorised", "multi-origin", "suffix-in-query", "suffix-in-query", "case-mapping-lookalike"}).Draw(rt, "family")
	switch c.Family {
	case "absent":
		c.Origin = ""
	case "same-host":
		c.Origin, c.Built, c.BuiltHost = scheme+"://"+host, true, host
	case "same-host-case":
		h := swapCase(host)
		c.Origin, c.Built, c.BuiltHost = scheme+"://"+h, true, h
	case "pattern-authorised":
		h := rapid.SampledFrom([]string{"app.example.com", "trusted.org", "x.trusted.org", "app-1.trusted.org", "App.Example.Com", "deep.sub.example.com"}).Draw(rt, "authorisedHost")
		c.Origin, c.Built, c.BuiltHost = scheme+"://"+h, true, h
	case "other-host":
		c.Origin, c.Built, c.BuiltHost = scheme+"://"+evil, true, evil
	case "userinfo-host-at-evil":
		c.Origin = scheme + "://" + bare + "@" + evil
	case "userinfo-evil-at-host":
		c.Origin = scheme + "://" + "evil.com@" + host
	case "port-mismatch":
		c.Origin, c.Built, c.BuiltHost = scheme+"://"+bare+":1234", true, bare+":1234"
	case "suffix-lookalike":
		c.Origin, c.Built, c.BuiltHost = scheme+"://evil"+bare, true, "evil"+bare
		if strings.HasPrefix(bare, "[") {
			c.Built = false
		}
	case "prefix-lookalike":
		c.Origin = scheme + "://" + bare + "evil.com"
	case "subdomain-lookalike":
		c.Origin = scheme + "://" + bare + ".evil.com"
	case "host-in-path":
		c.Origin = scheme + "://" + evil + "/" + host
	case "host-in-query":
		c.Origin = scheme + "://" + evil + "?" + host
	case "host-in-fragment":
		c.Origin = scheme + "://" + evil + "#@" + host
	case "null":
		c.Origin = "null"
	case "schemeless":
		c.Origin = rapid.SampledFrom([]string{host, "//" + host, evil, "//" + evil}).Draw(rt, "schemeless")
	case "opaque":
		c.Origin = rapid.SampledFrom([]string{"javascript:alert(1)", "data:text/html,x", "file:///etc/passwd", "about:blank", "mailto:x@" + host}).Draw(rt, "opaque")
	case "whitespace":
		c.Origin = rapid.SampledFrom([]string{"http://" + evil + " " + host, "http:// " + host, "http://" + host + "\t.evil.com", " http://" + evil}).Draw(rt, "ws")
	case "garbage":
		c.Origin = rapid.SampledFrom([]string{"://", "http://", "http:///" + host, "::::", "%%%", "http://%zz", "http://[::1", "http://" + host + ":port"}).Draw(rt, "garbage")
	case "case-mapping-lookalike":
		// the Host with one letter replaced by a character whose LOWER-CASE MAPPING, but not its case folding, lands on
		// that letter (U+0130 -> "i" + combining dot under Unicode lower-casing rules that special-case it; here simply:
		// a host that is not equal to Host under any case-insensitive comparison), percent-encoded so that the header
		// stays ASCII; a same-host test built on lower-casing both sides and comparing must not be fooled
		if i := strings.IndexAny(bare, "iI"); i >= 0 && !strings.HasPrefix(bare, "[") {
			c.Origin = scheme + "://" + bare[:i] + "%C4%B0" + bare[i+1:]
		} else {
			c.Origin = scheme + "://" + evil
		}
	case "trailing-dot":
		c.Origin = scheme + "://" + bare + "."
	case "double-at":
		c.Origin = scheme + "://" + host + "@" + host + "@" + evil
	case "backslash":
		c.Origin = scheme + "://" + evil + "\\@" + host
	case "empty-authority":
		c.Origin = scheme + ":///" + host
	case "long-lookalike", "long-authorised":
		// a very long origin host, with one upper-case letter somewhere: an authorised name
		// of total length n (n around sizes that fixed buffers have, or anywhere up to 600)
		// followed, for the look-alike, by an attacker's domain
		suffix := rapid.SampledFrom([]string{".example.com", ".trusted.org"}).Draw(rt, "longSuffix")
		c.Patterns = append(c.Patterns, "*"+suffix)
		n := rapid.OneOf(rapid.IntRange(len(suffix)+1, 600), rapid.IntRange(250, 262), rapid.SampledFrom([]int{63, 64, 65, 127, 128, 129, 511, 512, 513})).Draw(rt, "longLen")
		if n <= len(suffix) {
			n = len(suffix) + 1
		}
		label := []byte(strings.Repeat("a", n-len(suffix)))
		if up := rapid.IntRange(-1, len(label)-1).Draw(rt, "upperAt"); up >= 0 {
			label[up] = 'A'
		}
		h := string(label) + suffix
		if c.Family == "long-lookalike" {
			h += rapid.SampledFrom([]string{".evil.test", "evil.test", ".evil.test:8080"}).Draw(rt, "longTail")
		}
		c.Origin, c.Built, c.BuiltHost = scheme+"://"+h, true, h
	case "suffix-in-query":
		// the attacker's host, then a query / fragment / path that ends like an authorised name
		sep := rapid.SampledFrom([]string{"?", "#", "/", "?x=", "/a/b?c#"}).Draw(rt, "suffixSep")
		tail := rapid.SampledFrom([]string{".example.com", "app.example.com", ".trusted.org", host, "x.trusted.org"}).Draw(rt, "suffixTail")
		c.Origin = scheme + "://" + evil + sep + tail
	case "multi-origin":
		good := rapid.SampledFrom([]string{scheme + "://" + host, "https://app.example.com", "https://x.trusted.org"}).Draw(rt, "goodOrigin")
		bad := scheme + "://" + evil
		switch rapid.IntRange(0, 3).Draw(rt, "multiShape") {
		case 0:
			c.Origin, c.More = bad, []string{good}
		case 1:
			c.Origin, c.More = good, []string{bad}
		case 2:
			c.Origin, c.More = bad, []string{bad, good}
		case 3:
			c.Origin, c.More = bad, []string{good, good}
		}
	}
	c.NilOpts = nilOpts && len(c.Patterns) == 0 && !c.Insecure
	if auth, ok := originAuthority(c.Origin); ok && rapid.IntRange(0, 3).Draw(rt, "forwardedHeaders") == 0 {
		name := rapid.SampledFrom([]string{"X-Forwarded-Host", "X-Forwarded-Host", "X-Original-Host", "X-Forwarded-Server", "Forwarded"}).Draw(rt, "forwardedName")
		val := auth
		if name == "Forwarded" {
			val = "host=" + auth
		}
		if rapid.Bool().Draw(rt, "forwardedList") {
			val = "proxy.internal, " + val
		}
		c.Forwarded = append(c.Forwarded, [2]string{name, val})
	}
	// Fetch Metadata as browsers send it: Sec-Fetch-Site says how the page relates to the server - and a page on a
	// sibling sub-domain or another port is "same-site". It is advice about the request, never an authorisation.
	if rapid.IntRange(0, 3).Draw(rt, "fetchMetadata") == 0 {
		c.Forwarded = append(c.Forwarded, [2]string{"Sec-Fetch-Site", rapid.SampledFrom([]string{"same-site", "same-site", "same-origin", "none", "cross-site", "SAME-SITE"}).Draw(rt, "secFetchSite")})
		if rapid.Bool().Draw(rt, "fetchMode") {
			c.Forwarded = append(c.Forwarded, [2]string{"Sec-Fetch-Mode", "websocket"}, [2]string{"Sec-Fetch-Dest", "empty"})
		}
	}
	return c
}

// c12AllowList: the storage of the allow-list all handshakes of the process share.
var c12AllowList = make([]string, 0, 8)

func runC12(c c12Case) (status int, hijacked bool, err error) {
	r := wsx.ValidRequest()
	r.Host = c.Host
	if c.Origin != "" {
		r.Header.Set("Origin", c.Origin)
	}
	for _, o := range c.More {
		r.Header.Add("Origin", o)
	}
	for _, f := range c.Forwarded {
		r.Header.Add(f[0], f[1])
	}
	// the application keeps ONE allow-list and edits it in place between handshakes: every
	// handshake is decided by what the list holds at that moment
	pats := c.Patterns
	if n := len(c.Patterns); n > 0 && n <= cap(c12AllowList) {
		pats = c12AllowList[:n]
		copy(pats, c.Patterns)
	}
	opts := &websocket.AcceptOptions{OriginPatterns: pats, InsecureSkipVerify: c.Insecure}
	if c.NilOpts {
		opts = nil // the defaults: what an earlier handshake was allowed must not matter
	}
	// the list is the application's: a handshake reads it. Compared over its whole capacity - an
	// append inside the library lands in the spare capacity behind the list, an in-place insert shifts the list
	full := pats[:cap(pats)]
	for i := len(pats); i < len(full); i++ {
		full[i] = "spare-" + strconv.Itoa(i)
	}
	before := append([]string(nil), full...)
	sv, aerr := wsx.AcceptReq(r, opts, nil)
	if sv.Conn != nil {
		sv.Conn.CloseNow()
	}
	c12LastMutation = ""
	for i := range full {
		if full[i] != before[i] {
			c12LastMutation = fmt.Sprintf("Accept changed the application's OriginPatterns storage: element %d of %d (len %d) was %q and is %q after a handshake with Host %q Origin %q - the allow-list of every later handshake is no longer the configured one", i, len(full), len(pats), before[i], full[i], c.Host, c.Origin)
			copy(full, before)
			break
		}
	}
	return sv.W.Code, sv.W.Hijacked, aerr
}

// c12LastMutation: set by runC12 when the handshake wrote to the caller's pattern storage.
var c12LastMutation string

func checkC12(c c12Case, status int, hijacked bool) string {
	if c12LastMutation != "" {
		return c12LastMutation
	}
	upgraded := status == 101 && hijacked
	if status == 101 != hijacked {
		return fmt.Sprintf("status %d but hijacked=%v", status, hijacked)
	}
	if c.Insecure || c.Origin == "" {
		if !upgraded {
			return fmt.Sprintf("request without an Origin header (or with verification disabled) was refused with %d", status)
		}
		return ""
	}
	auth, ok := originAuthority(c.Origin)
	authorised := false
	if ok {
		if strings.EqualFold(auth, c.Host) {
			authorised = true
		}
		for _, p := range c.Patterns {
			if !badPattern(p) && (glob(p, auth) || wildcardOverNonASCII(p, auth)) {
				authorised = true
			}
		}
	} else {
		// no host can be named: only a pattern that matches the empty host authorises it
		for _, p := range c.Patterns {
			if !badPattern(p) && glob(p, "") {
				authorised = true
			}
		}
	}
	anyBad := false
	for _, p := range c.Patterns {
		anyBad = anyBad || badPattern(p)
	}
	if upgraded && !authorised {
		return fmt.Sprintf("cross-origin request was upgraded: Origin %q names authority %q (extractable=%v), Host %q, patterns %v", c.Origin, auth, ok, c.Host, c.Patterns)
	}
	if !upgraded {
		if status != 403 {
			return fmt.Sprintf("origin refusal used status %d, want 403", status)
		}
		// acceptance is only demanded for origins the generator built as proper serialisations
		if c.Built && authorised && !anyBad { // (a malformed pattern in the list may make the library refuse everyone behind it)
			return fmt.Sprintf("an authorised origin was refused: Origin %q, Host %q, patterns %v", c.Origin, c.Host, c.Patterns)
		}
	}
	return ""
}

// wildcardOverNonASCII: the documented matcher is filepath.Match, and for hosts with
// bytes >= 0x80 (reachable through %XX in the Origin's authority) its `*` steps through
// the name byte by byte, so that it can stop inside a multi-byte character and let `?`
// match the pieces (filepath.Match("*??", "\uFFFD") is true). How the standard library
// counts characters there is its own business and not part of C12: a wildcard pattern's
// verdict over such a host is left open; literal patterns and host equality are not.
func wildcardOverNonASCII(pattern, auth string) bool {
	if !strings.ContainsAny(pattern, "*?") {
		return false
	}
	for i := 0; i < len(auth); i++ {
		if auth[i] >= 0x80 {
			return true
		}
	}
	return false
}

func TestC12(t *testing.T) {
	rec := evid.For("C12")
	rec.Rule = "rapid draws (Host, Origin, OriginPatterns, InsecureSkipVerify) from an origin attack grammar: 12 host forms (names, IPv4, bracketed IPv6, ports, mixed case) x 26 origin families (very long authorised names and look-alikes of 13..600 bytes with one upper-case letter, several Origin lines of which the first is the one a Go handler sees, absent, same host, case variants, pattern-authorised, other host, userinfo tricks both ways, port mismatch, suffix/prefix/sub-domain look-alikes, host inside path/query/fragment, null, schemeless, opaque, whitespace, garbage, trailing dot, double @, backslash, empty authority) x 5 schemes x pattern sets with literals, * and ? and syntactically invalid or scheme-qualified patterns (which authorise nobody: patterns are matched against the origin's host), optional X-Forwarded-Host-style request headers naming the origin's host (which authorise nothing), or nil options after earlier handshakes of the process ran with InsecureSkipVerify; the pattern lists of all handshakes of the process live in one slice that is edited in place between handshakes. Oracle: independent authority extractor + glob matcher; one-sided security predicate (upgraded => authorised) plus the converse for origins the generator built as RFC 6454 serialisations. Non-trivial: Origin present and textually different from Host. distinct = hash(host, origin, patterns, flag)."
	checkProp(t, func(rt *rapid.T) {
		c := genC12(rt)
		status, hijacked, _ := runC12(c)
		msg := checkC12(c, status, hijacked)
		nt := c.Origin != "" && !strings.HasSuffix(c.Origin, "://"+c.Host)
		out := "refused"
		if status == 101 {
			out = "upgraded"
		}
		rec.Case(nt, fmt.Sprintf("%s|%s|%v|%v|%v|%v|%v", c.Host, c.Origin, c.Patterns, c.Insecure, c.More, c.NilOpts, c.Forwarded), "family:"+c.Family, "outcome:"+out, "family-outcome:"+c.Family+"/"+out)
		if rec.WantSample() {
			rec.Sample(map[string]any{"host": c.Host, "origin": c.Origin, "patterns": c.Patterns, "insecure": c.Insecure, "status": status})
		}
		if msg != "" {
			rt.Fatalf("C12 %+v: %s", c, msg)
		}
	})
}

// FuzzC12 explores (Host, Origin, pattern) strings with the one-sided security
// predicate (thorough tier).
func FuzzC12(f *testing.F) {
	f.Add("example.com", "http://example.com", "*.example.com")
	f.Add("example.com", "http://example.com@evil.com", "")
	f.Add("example.com", "http://evil.com/example.com", "example.com")
	f.Add("[::1]:9000", "https://[::1]:9000", "")
	f.Add("example.com", "null", "*")
	f.Add("0", "//%80", "*??")                 // a non-ASCII host through %XX: see wildcardOverNonASCII
	f.Add("a.test", "http://%E2%82%AC", "*??") // one 3-byte character
	f.Fuzz(func(t *testing.T, host, origin, pattern string) {
		if host == "" || strings.ContainsAny(host, " \t\r\n/?#@\\") || strings.ContainsAny(pattern, "[\\") || strings.ContainsAny(origin, "\r\n") {
			t.Skip()
		}
		if len(host) > 100 || len(origin) > 300 || len(pattern) > 40 {
			t.Skip() // header sizes beyond anything a browser sends only slow the campaign down
		}
		// header values as a browser and net/http produce them: printable ASCII
		for _, s := range []string{host, origin, pattern} {
			for i := 0; i < len(s); i++ {
				if s[i] < 0x20 || s[i] > 0x7e {
					t.Skip()
				}
			}
		}
		c := c12Case{Host: host, Origin: origin, Family: "fuzz"}
		if pattern != "" {
			c.Patterns = []string{pattern}
		}
		status, hijacked, _ := runC12(c)
		if msg := checkC12(c, status, hijacked); msg != "" {
			t.Fatalf("C12 fuzz host=%q origin=%q pattern=%q: %s", host, origin, pattern, msg)
		}
	})
}
