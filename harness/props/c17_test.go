package props

import (
	"bytes"
	"fmt"
	"runtime"
	"runtime/debug"
	"syscall"
	"testing"
	"unsafe"

	"nhooyr.io/websocket"
	"verif/harness/evid"
)

// C17 — masking is an exact, chunk-composable XOR for every length, alignment and key.

type maskImpl struct {
	name string
	f    func([]byte, uint32) uint32
}

func maskImpls() []maskImpl {
	l := []maskImpl{{"maskGo", websocket.VerifMaskGo}, {"mask", websocket.VerifMask}}
	if websocket.VerifMaskAsm != nil {
		l = append(l, maskImpl{"maskAsm", websocket.VerifMaskAsm})
	}
	return l
}

type c17Case struct {
	Impl    string `json:"impl"`
	Len     int    `json:"len"`
	Align   int    `json:"align"`
	Key     uint32 `json:"key"`
	Seed    uint64 `json:"seed"`
	Splits  []int  `json:"splits,omitempty"`
	Page    string `json:"page,omitempty"`     // "", "end" or "start": flush against a PROT_NONE page
	OpenCap bool   `json:"open_cap,omitempty"` // the slice handed over has spare capacity behind it (two-index slice)
}

const c17Guard = 64

// c17Arena is a reusable allocation with a 64-byte aligned base.
type c17Arena struct {
	raw  []byte
	base int
}

func newC17Arena() *c17Arena {
	raw := make([]byte, 64+128+63+4200+c17Guard+64)
	base := 0
	for uintptr(unsafe.Pointer(&raw[base]))%64 != 0 {
		base++
	}
	return &c17Arena{raw: raw, base: base}
}

func fillBytes(b []byte, seed uint64) {
	x := seed | 1
	for i := range b {
		x ^= x << 13
		x ^= x >> 7
		x ^= x << 17
		b[i] = byte(x >> 24)
	}
}

func keyBytes(k uint32) [4]byte { return [4]byte{byte(k), byte(k >> 8), byte(k >> 16), byte(k >> 24)} }

// c17Oracle is the definition: byte i XOR key byte (i mod 4); returned key
// byte j = key byte ((len + j) mod 4).
func c17Oracle(in []byte, key uint32) (out []byte, ret uint32) {
	kb := keyBytes(key)
	out = make([]byte, len(in))
	for i := range in {
		out[i] = in[i] ^ kb[i%4]
	}
	var rb [4]byte
	for j := 0; j < 4; j++ {
		rb[j] = kb[(len(in)+j)%4]
	}
	ret = uint32(rb[0]) | uint32(rb[1])<<8 | uint32(rb[2])<<16 | uint32(rb[3])<<24
	return
}

// runC17 runs one case in the arena and returns "" or a failure description.
func runC17(ar *c17Arena, impl maskImpl, c c17Case) string {
	start := 128 + c.Align // address ≡ align (mod 64), a full guard before the data
	lo := ar.base + start - c17Guard
	hi := ar.base + start + c.Len + c17Guard
	all := ar.raw[lo:hi]
	fillBytes(all, c.Seed)
	orig := append([]byte(nil), all...)
	data := ar.raw[ar.base+start : ar.base+start+c.Len : ar.base+start+c.Len]
	if c.OpenCap {
		data = ar.raw[ar.base+start : ar.base+start+c.Len] // cap reaches into the guard and beyond
	}
	if uintptr(unsafe.Pointer(&ar.raw[ar.base+start]))%64 != uintptr(c.Align) {
		return "harness: alignment arithmetic wrong"
	}
	want, wantKey := c17Oracle(orig[c17Guard:c17Guard+c.Len], c.Key)
	var got uint32
	if len(c.Splits) == 0 {
		got = impl.f(data, c.Key)
	} else {
		k := c.Key
		prev := 0
		for _, s := range append(append([]int(nil), c.Splits...), c.Len) {
			if c.OpenCap {
				k = impl.f(data[prev:s], k)
			} else {
				k = impl.f(data[prev:s:s], k)
			}
			prev = s
		}
		got = k
	}
	if !bytes.Equal(data, want) {
		for i := range want {
			if data[i] != want[i] {
				return fmt.Sprintf("byte %d: got %#x want %#x", i, data[i], want[i])
			}
		}
	}
	if got != wantKey {
		return fmt.Sprintf("returned key %#08x want %#08x", got, wantKey)
	}
	if !bytes.Equal(all[:c17Guard], orig[:c17Guard]) {
		return "guard bytes before the buffer were modified"
	}
	if !bytes.Equal(all[c17Guard+c.Len:], orig[c17Guard+c.Len:]) {
		return "guard bytes after the buffer were modified"
	}
	return ""
}

func c17Keys(seed, idx uint64) []uint32 {
	r := evid.Mix(seed, idx)
	// four distinct bytes derived from the case
	b0 := byte(r)
	b1 := byte(r>>8) | 1
	if b1 == b0 {
		b1 ^= 2
	}
	b2 := byte(r >> 16)
	for b2 == b0 || b2 == b1 {
		b2 += 7
	}
	b3 := byte(r >> 24)
	for b3 == b0 || b3 == b1 || b3 == b2 {
		b3 += 11
	}
	return []uint32{uint32(b0) | uint32(b1)<<8 | uint32(b2)<<16 | uint32(b3)<<24, 0x04030201}
}

var c17ExtraKeys = []uint32{0, 0xffffffff, 0x000000ff, 0x0000ff00, 0x00ff0000, 0xff000000}

func TestC17(t *testing.T) {
	rec := evid.For("C17")
	rec.Rule = "enumeration: implementation x length x start alignment (address mod 64) x keys (one with four distinct bytes derived from VERIF_SEED and the case, 01 02 03 04; at alignments 0/1/63 also 0, ff ff ff ff and single-byte keys), random contents; 2-piece and 3-piece splits; buffers flush against PROT_NONE pages; large buffers: lengths 2^k + {-65..129} for k = 13..22 and drawn lengths up to 4 MiB, whole and in two pieces, at alignments 0/1/15/63; concurrent updates of the neighbouring bytes. Non-trivial: length >= 4 (non-empty word loop); distinct = (implementation, length, alignment, split-shape class)."
	seed := evid.Seed()
	impls := maskImpls()
	var rc c17Case
	if replayCase(t, &rc) {
		ar := newC17Arena()
		for _, im := range impls {
			if im.name == rc.Impl {
				var msg string
				if rc.Page != "" {
					msg = runC17Page(im, rc)
				} else {
					msg = runC17(ar, im, rc)
				}
				if msg != "" {
					failCase(t, "C17", rc, "%s", msg)
				}
			}
		}
		return
	}
	shard, shards := evid.EnvInt("VERIF_SHARD", 0), evid.EnvInt("VERIF_SHARDS", 1)
	fullLen := 1100
	if evid.Thorough() {
		fullLen = 4200
	}
	ar := newC17Arena()
	idx := uint64(0)
	check := func(im maskImpl, c c17Case, class string) {
		msg := runC17(ar, im, c)
		rec.Case(c.Len >= 4, fmt.Sprintf("%s/%d/%d/%s", im.name, c.Len, c.Align, class), "impl:"+im.name, class)
		if msg != "" {
			failCase(t, "C17", c, "%s", msg)
		}
	}
	lens := []int{}
	for l := 0; l <= fullLen; l++ {
		lens = append(lens, l)
	}
	if !evid.Thorough() {
		// drawn lengths above the complete range, up to 4200
		for i := 0; i < 160; i++ {
			lens = append(lens, fullLen+1+int(evid.Mix(seed, uint64(1e6+i))%uint64(4200-fullLen)))
		}
		lens = append(lens, 4095, 4096, 4097, 4199, 4200)
	}
	for _, im := range impls {
		for align := 0; align < 64; align++ {
			if align%shards != shard {
				continue
			}
			for _, l := range lens {
				idx++
				keys := c17Keys(seed, uint64(l)*64+uint64(align))
				if align == 0 || align == 1 || align == 63 {
					keys = append(keys, c17ExtraKeys...)
				}
				for _, k := range keys {
					c := c17Case{Impl: im.name, Len: l, Align: align, Key: k, Seed: evid.Mix(seed, idx)}
					check(im, c, "whole")
					c.OpenCap = true
					check(im, c, "whole-opencap")
				}
			}
		}
	}
	rec.Exhaustive("length 0.."+fmt.Sprint(fullLen)+" x alignment 0..63 x implementations (whole-buffer)", true)
	if rec.WantSample() {
		rec.Sample(c17Case{Impl: "maskGo", Len: 131, Align: 5, Key: c17Keys(seed, 131*64+5)[0], Seed: evid.Mix(seed, 77)})
	}

	// Every 2-piece split for lengths <= 300 and every 3-piece split for lengths <= 64.
	splitAligns := []int{0, 1, 3, 7, 13, 31, 63, int(evid.Mix(seed, 424242) % 64)}
	max2, max3 := 300, 64
	for _, im := range impls {
		for ai, align := range splitAligns {
			if ai%shards != shard {
				continue
			}
			for l := 1; l <= max2; l++ {
				key := c17Keys(seed, uint64(l)*64+uint64(align))[0]
				for s := 0; s <= l; s++ {
					idx++
					check(im, c17Case{Impl: im.name, Len: l, Align: align, Key: key, Seed: evid.Mix(seed, idx), Splits: []int{s}}, "split2")
					check(im, c17Case{Impl: im.name, Len: l, Align: align, Key: key, Seed: evid.Mix(seed, idx), Splits: []int{s}, OpenCap: true}, "split2-opencap")
				}
			}
			for l := 1; l <= max3; l++ {
				key := c17Keys(seed, uint64(l)*64+uint64(align))[0]
				for s1 := 0; s1 <= l; s1++ {
					for s2 := s1; s2 <= l; s2++ {
						idx++
						check(im, c17Case{Impl: im.name, Len: l, Align: align, Key: key, Seed: evid.Mix(seed, idx), Splits: []int{s1, s2}}, "split3")
					}
				}
			}
			// drawn splits on long buffers
			for i := 0; i < 400; i++ {
				r := evid.Mix(seed, uint64(9e6)+uint64(i)+uint64(align)<<20)
				l := 301 + int(r%3900)
				s1 := int((r >> 16) % uint64(l+1))
				s2 := s1 + int((r>>32)%uint64(l-s1+1))
				idx++
				check(im, c17Case{Impl: im.name, Len: l, Align: align, Key: c17Keys(seed, r)[0], Seed: evid.Mix(seed, idx), Splits: []int{s1, s2}}, "split-drawn")
			}
		}
	}
	rec.Exhaustive("all 2-piece splits len<=300 and 3-piece splits len<=64 at 8 alignments", true)
	rec.Sample(c17Case{Impl: "mask", Len: 64, Align: 13, Key: 0x04030201, Seed: 5, Splits: []int{3, 41}})

	// Guard pages: the buffer ends (or starts) exactly at a PROT_NONE page.
	if shard == 0 {
		pageLens := []int{}
		for l := 0; l <= 600; l++ {
			pageLens = append(pageLens, l)
		}
		for l := 601; l <= 4200; l += 7 {
			pageLens = append(pageLens, l)
		}
		pageLens = append(pageLens, 4095, 4096, 4097, 4200)
		for _, im := range impls {
			for _, l := range pageLens {
				for _, side := range []string{"end", "start"} {
					idx++
					c := c17Case{Impl: im.name, Len: l, Key: c17Keys(seed, uint64(l))[0], Seed: evid.Mix(seed, idx), Page: side}
					msg := runC17Page(im, c)
					rec.Case(l >= 4, fmt.Sprintf("%s/%d/page-%s", im.name, l, side), "guard-page:"+side)
					if msg != "" {
						failCase(t, "C17", c, "%s", msg)
					}
				}
			}
		}
		rec.Sample(c17Case{Impl: impls[len(impls)-1].name, Len: 33, Key: 0x04030201, Seed: 9, Page: "end"})
	}
}

var (
	c17Pages     []byte
	c17PageSize  int
	c17FaultSink byte
)

func c17PagesInit() error {
	if c17Pages != nil {
		return nil
	}
	ps := syscall.Getpagesize()
	n := 2 + (4200+ps-1)/ps + 1
	m, err := syscall.Mmap(-1, 0, n*ps, syscall.PROT_READ|syscall.PROT_WRITE, syscall.MAP_ANON|syscall.MAP_PRIVATE)
	if err != nil {
		return err
	}
	if err := syscall.Mprotect(m[:ps], syscall.PROT_NONE); err != nil {
		return err
	}
	if err := syscall.Mprotect(m[(n-1)*ps:], syscall.PROT_NONE); err != nil {
		return err
	}
	c17Pages, c17PageSize = m, ps
	return nil
}

// runC17Page masks a buffer that is flush against an inaccessible page, so an
// out-of-bounds read or write faults (turned into a recoverable panic).
func runC17Page(im maskImpl, c c17Case) (msg string) {
	if err := c17PagesInit(); err != nil {
		return "" // cannot map guard pages here: nothing to check
	}
	ps := c17PageSize
	n := len(c17Pages) / ps
	var data []byte
	if c.Page == "end" {
		end := (n - 1) * ps
		data = c17Pages[end-c.Len : end : end]
	} else {
		data = c17Pages[ps : ps+c.Len : ps+c.Len]
	}
	fillBytes(data, c.Seed)
	orig := append([]byte(nil), data...)
	want, wantKey := c17Oracle(orig, c.Key)
	old := debug.SetPanicOnFault(true)
	defer debug.SetPanicOnFault(old)
	defer func() {
		if r := recover(); r != nil {
			msg = fmt.Sprintf("memory fault outside the buffer: %v", r)
		}
	}()
	got := im.f(data, c.Key)
	if !bytes.Equal(data, want) {
		return "wrong bytes (guard-page placement)"
	}
	if got != wantKey {
		return fmt.Sprintf("returned key %#08x want %#08x", got, wantKey)
	}
	return ""
}

// TestC17Neighbours: "never touch memory outside the buffer" includes rewriting
// neighbouring bytes with the value just read: while one goroutine masks a buffer
// over and over, another one keeps incrementing the bytes directly before and
// after it; a read-modify-write that spans them loses increments.
func TestC17Neighbours(t *testing.T) {
	rec := evid.For("C17")
	if runtime.GOMAXPROCS(0) < 2 {
		t.Skip("needs two CPUs")
	}
	ar := newC17Arena()
	rounds := evid.Scale(1500, 20000)
	for _, im := range maskImpls() {
		for _, align := range []int{1, 2, 3, 4, 5, 6, 7, 9, 15, 17, 31, 33, 63} {
			for _, n := range []int{3, 31, 129, 200, 1000} {
				start := ar.base + 128 + align
				data := ar.raw[start : start+n : start+n]
				before, after := &ar.raw[start-1], &ar.raw[start+n]
				*before, *after = 0, 0
				stop := make(chan struct{})
				done := make(chan int)
				go func() {
					k := 0
					for {
						select {
						case <-stop:
							done <- k
							return
						default:
						}
						*before++
						*after++
						k++
					}
				}()
				key := uint32(0x04030201)
				for i := 0; i < rounds; i++ {
					key = im.f(data, key)
				}
				close(stop)
				k := <-done
				rec.Case(true, fmt.Sprintf("neighbours/%s/%d/%d", im.name, align, n), "concurrent-neighbours")
				if *before != byte(k) || *after != byte(k) {
					failCase(t, "C17", map[string]any{"impl": im.name, "align": align, "len": n, "neighbours": true},
						"bytes next to the buffer lost concurrent updates while %s was masking it: before=%d after=%d, want %d (mod 256): the implementation rewrites memory outside the buffer", im.name, *before, *after, byte(k))
				}
			}
		}
	}
}

// TestC17Large: "for every length" does not stop at 4200. Implementations switch
// strategy at sizes nobody writes down (unrolled loops, wider registers,
// non-temporal stores for buffers beyond the cache): lengths around every power of
// two from 8 KiB to 4 MiB, and drawn ones, whole and in two pieces, at several
// alignments, with guard bytes, against the byte-loop definition.
func TestC17Large(t *testing.T) {
	rec := evid.For("C17")
	seed := evid.Seed()
	const maxLen = 4<<20 + 256
	raw := make([]byte, 64+128+63+maxLen+c17Guard+64)
	base := 0
	for uintptr(unsafe.Pointer(&raw[base]))%64 != 0 {
		base++
	}
	ar := &c17Arena{raw: raw, base: base}
	var rc c17Case
	if replayCase(t, &rc) {
		for _, im := range maskImpls() {
			if im.name == rc.Impl {
				if msg := runC17(ar, im, rc); msg != "" {
					failCase(t, "C17", rc, "%s", msg)
				}
			}
		}
		return
	}
	var lens []int
	for k := 13; k <= 22; k++ {
		for _, d := range []int{-65, -1, 0, 1, 63, 64, 65, 127, 128, 129} {
			lens = append(lens, 1<<k+d)
		}
	}
	for i := 0; i < evid.Scale(12, 200); i++ {
		lens = append(lens, 4201+int(evid.Mix(seed, uint64(77e6)+uint64(i))%uint64(maxLen-4201)))
	}
	idx := uint64(0)
	for _, im := range maskImpls() {
		for _, align := range []int{0, 1, 15, 63} {
			for _, l := range lens {
				idx++
				key := c17Keys(seed, uint64(l)*64+uint64(align))[0]
				c := c17Case{Impl: im.name, Len: l, Align: align, Key: key, Seed: evid.Mix(seed, idx)}
				msg := runC17(ar, im, c)
				if msg == "" {
					r := evid.Mix(seed, idx+1<<40)
					c.Splits = []int{int(r % uint64(l+1))}
					msg = runC17(ar, im, c)
				}
				rec.Case(true, fmt.Sprintf("%s/%d/%d/large", im.name, l, align), "impl:"+im.name, "large(8KiB..4MiB)")
				if msg != "" {
					failCase(t, "C17", c, "%s", msg)
				}
			}
		}
	}
}

// TestC17Huge: "for every buffer length" - also one that does not fit in 32 bits. A single
// buffer of 2 GiB + 5 bytes (anonymous mapping, zero-filled, so the masked content is the key
// pattern itself and can be checked without a second copy), every implementation, the buffer
// starting at an odd address; compared at the ends, around every power of two from 2^16 up, and
// at a stride of 1 MiB + 13. An implementation that looks at the low 32 bits of the length
// masks a handful of bytes and returns a plausible key. Skipped (and recorded as skipped) when
// the mapping cannot be had.
func TestC17Huge(t *testing.T) {
	rec := evid.For("C17")
	n := 2<<30 + 5
	mem, err := syscall.Mmap(-1, 0, n+64, syscall.PROT_READ|syscall.PROT_WRITE, syscall.MAP_ANON|syscall.MAP_PRIVATE)
	if err != nil {
		rec.Class("huge-buffer-skipped-no-memory", 1)
		t.Logf("cannot map %d bytes: %v", n, err)
		return
	}
	defer syscall.Munmap(mem)
	key := uint32(0xa1b2c3d4)
	kb := keyBytes(key)
	for _, im := range maskImpls() {
		clear(mem)          // zeros: the masked buffer is the key pattern itself
		buf := mem[1 : 1+n] // odd start address
		got := im.f(buf, key)
		_, wantKey := c17Oracle(make([]byte, n%4), key) // the rotation depends on the length mod 4 only
		pass := 1
		wantAt := func(i int) byte { return kb[i%4] }
		var idx []int
		for i := 0; i < 300; i++ {
			idx = append(idx, i, n-1-i)
		}
		for p := 16; p <= 31; p++ {
			for d := -70; d <= 70; d++ {
				if j := 1<<p + d; j >= 0 && j < n {
					idx = append(idx, j)
				}
			}
		}
		for j := 0; j < n; j += 1<<20 + 13 {
			idx = append(idx, j)
		}
		for _, i := range idx {
			if buf[i] != wantAt(i) {
				failCase(t, "C17", map[string]any{"impl": im.name, "len": n, "index": i}, "%s on a buffer of %d bytes: byte %d is %#x, want %#x (pass %d over a zero-filled buffer)", im.name, n, i, buf[i], wantAt(i), pass)
			}
		}
		if mem[0] != 0 || mem[1+n] != 0 {
			failCase(t, "C17", map[string]any{"impl": im.name, "len": n}, "%s touched a byte outside a buffer of %d bytes", im.name, n)
		}
		if got != wantKey {
			failCase(t, "C17", map[string]any{"impl": im.name, "len": n}, "%s on %d bytes returned key %#08x, want %#08x", im.name, n, got, wantKey)
		}
		rec.Case(true, fmt.Sprintf("huge|%s|%d", im.name, n), "buffer-longer-than-2^31")
	}
}
