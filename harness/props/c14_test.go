package props

import (
	"bytes"
	"context"
	"fmt"
	"io"
	"net/http"
	"reflect"
	"strings"
	"sync"
	"testing"
	"testing/synctest"
	"time"

	"nhooyr.io/websocket"
	"pgregory.net/rapid"
	"verif/harness/evid"
	"verif/harness/ref"
	"verif/harness/wsx"
)

// C14 — permessage-deflate is negotiated soundly and both ends agree on its parameters.

var c14Params = []string{
	"client_no_context_takeover", "server_no_context_takeover",
	"client_max_window_bits", "client_max_window_bits=8", "client_max_window_bits=12", "client_max_window_bits=15",
	"client_max_window_bits=abc", "client_max_window_bits=7", "client_max_window_bits=16", "client_max_window_bits=",
	"server_max_window_bits=8", "server_max_window_bits=14", "server_max_window_bits=15",
	"server_max_window_bits", "server_max_window_bits=abc", "server_max_window_bits=7", "server_max_window_bits=16",
	"frobnicate", "x_unknown=1",
	// the two flags take no value (RFC 7692 section 7.1.1): with one they are malformed
	"server_no_context_takeover=0", "client_no_context_takeover=false", "client_no_context_takeover=",
}

// exchangeMsgs: later messages repeat earlier content, so a sender with context
// takeover really back-references and a wrong assumption on either side breaks decoding.
func exchangeMsgs() [][]byte {
	a := expand(ckText, 11, 2500)
	b := expand(ckText, 12, 1800)
	// r does not compress; it is sent twice and then in part: what an endpoint does with a message
	// that compression does not shrink must keep both ends' windows in step
	r := expand(ckRandom, 13, 1500)
	return [][]byte{a, a, append(append([]byte(nil), b...), a...), []byte("short uncompressed"), b, append(append([]byte(nil), a[:700]...), b[:700]...),
		r, r, append(append([]byte(nil), r[:600]...), a[:300]...)}
}

// exchange runs a multi-message exchange in both directions between the library
// connection and the reference peer, which applies the parameters as RFC 7692
// reads the handshake response.
func exchange(e *env, lc *libConn) string {
	msgs := exchangeMsgs()
	libIsClient := lc.Spec.Client
	conn := lc.C
	conn.SetReadLimit(1 << 20)
	p := lc.Peer
	p.onFrame = func(f ref.Frame) {
		if f.Opcode == ref.OpClose {
			p.send(ref.Frame{Fin: true, Opcode: ref.OpClose, Payload: f.Payload})
		}
	}
	p.start(e)
	ctx := context.Background()
	// peer -> library
	def := ref.NewDeflater(lc.Agreed.SenderTakeover(!libIsClient))
	for i, m := range msgs {
		comp := lc.Agreed.Deflate && i != 3
		raw := m
		if comp {
			// a foreign sender is free in how it flushes: sync flush, BFINAL=1 + 00, several flushes
			raw = def.Message(m, []ref.DeflateVariant{ref.DVSync, ref.DVBFinal, ref.DVMultiFlush}[i%3])
		}
		if i%2 == 1 && len(raw) > 10 {
			// ... and in how it fragments
			p.send(ref.Frame{Fin: false, Opcode: ref.OpText, Rsv1: comp, Payload: raw[:len(raw)/2]})
			p.send(ref.Frame{Fin: true, Opcode: ref.OpCont, Payload: raw[len(raw)/2:]})
			continue
		}
		p.send(ref.Frame{Fin: true, Opcode: ref.OpText, Rsv1: comp, Payload: raw})
	}
	var rerr string
	d := e.Call(func() {
		for i, m := range msgs {
			_, got, err := conn.Read(ctx)
			if err != nil {
				rerr = fmt.Sprintf("peer->library message %d failed to decode: %v", i, err)
				return
			}
			if !bytes.Equal(got, m) {
				rerr = fmt.Sprintf("peer->library message %d decoded wrongly (%d vs %d bytes)", i, len(got), len(m))
				return
			}
		}
	})
	if !within(d, 60*time.Second) {
		return "peer->library exchange did not finish"
	}
	if rerr != "" {
		return rerr
	}
	// library -> peer
	var werr error
	d = e.Call(func() {
		for i, m := range msgs {
			if i%2 == 0 {
				werr = conn.Write(ctx, websocket.MessageText, m)
			} else {
				var w io.WriteCloser
				if w, werr = conn.Writer(ctx, websocket.MessageText); werr == nil {
					if _, werr = w.Write(m[:len(m)/3]); werr == nil {
						if _, werr = w.Write(m[len(m)/3:]); werr == nil {
							werr = w.Close()
						}
					}
				}
			}
			if werr != nil {
				return
			}
		}
		conn.Close(websocket.StatusNormalClosure, "")
	})
	if !within(d, 60*time.Second) || werr != nil {
		return fmt.Sprintf("library->peer writes failed: %v", werr)
	}
	p.waitEOF(30 * time.Second)
	rep, verr := ref.ValidateStream(lc.End.InRecording(), ref.StreamOpts{FromClient: libIsClient, Deflate: lc.Agreed.Deflate, Takeover: lc.Agreed.SenderTakeover(libIsClient)}, true)
	if verr != nil {
		return fmt.Sprintf("library->peer: what the library sent cannot be decoded under the agreed parameters (%+v): %v", lc.Agreed, verr)
	}
	if len(rep.Messages) != len(msgs) {
		return fmt.Sprintf("library->peer: %d of %d messages on the wire", len(rep.Messages), len(msgs))
	}
	for i, m := range rep.Messages {
		if !bytes.Equal(m.Payload, msgs[i]) {
			return fmt.Sprintf("library->peer message %d decodes wrongly under the agreed parameters", i)
		}
	}
	return ""
}

type c14ServerCase struct {
	Mode   websocket.CompressionMode
	Offers []string // offer elements; joined into one or several header lines
	Lines  bool
}

// c14Seen remembers, per process, what the server answered to a given (mode, offer header):
// negotiation is a function of the handshake's own inputs, so the same inputs must get
// the same answer however many other handshakes happened before.
var (
	c14SeenMu sync.Mutex
	c14Seen   = map[string]string{}
)

// c14NoHistory: the fuzz target does not remember the millions of offers it tries.
var c14NoHistory bool

type c14Outcome struct {
	Agreed   bool
	Fallback bool
	Asym     bool
}

func runC14Server(t fataler, c c14ServerCase) (string, c14Outcome) {
	var out c14Outcome
	e := newEnv(t)
	defer e.Teardown()
	cfg := wsx.ServerCfg{Mode: c.Mode, Threshold: 1}
	if c.Lines {
		cfg.Offers = c.Offers
	} else {
		cfg.Offer = strings.Join(c.Offers, ", ")
	}
	sv, err := wsx.Accept(cfg)
	e.track(sv.Conn, sv.Peer, sv.Lib)
	if err != nil {
		return "Accept failed on a valid request: " + err.Error(), out
	}
	respVals := sv.W.H.Values("Sec-WebSocket-Extensions")
	key := fmt.Sprintf("%v|%v|%q", c.Mode, c.Lines, c.Offers)
	c14SeenMu.Lock()
	prev, seen := c14Seen[key]
	if !c14NoHistory {
		c14Seen[key] = fmt.Sprint(respVals)
	}
	c14SeenMu.Unlock()
	if seen && prev != fmt.Sprint(respVals) {
		return fmt.Sprintf("the same offer %q in mode %s was answered %s earlier in this process and %v now: the negotiation depends on other connections' handshakes", c.Offers, modeName(c.Mode), prev, respVals), out
	}
	resp := ref.ParseExtensions(respVals)
	var offerHdr []string
	if c.Lines {
		offerHdr = c.Offers
	} else {
		offerHdr = []string{strings.Join(c.Offers, ", ")}
	}
	offers := ref.ParseExtensions(offerHdr)
	if len(resp) > 0 {
		out.Agreed = true
		if c.Mode == websocket.CompressionDisabled {
			return fmt.Sprintf("compression agreed (%q) although the server has it disabled", respVals), out
		}
		if len(resp) != 1 || resp[0].Name != "permessage-deflate" {
			return fmt.Sprintf("response %q is not a single permessage-deflate extension", respVals), out
		}
		var rSrvNo, rCliNo, rCliBits bool
		for _, p := range resp[0].Params {
			switch p.Name {
			case "server_no_context_takeover":
				rSrvNo = !p.HasValue
			case "client_no_context_takeover":
				rCliNo = !p.HasValue
			case "client_max_window_bits":
				rCliBits = true
				if p.HasValue {
					if _, ok := ref.WindowBits(p.Value); !ok {
						return fmt.Sprintf("response %q carries a malformed client_max_window_bits", respVals), out
					}
				}
			case "server_max_window_bits":
				if _, ok := ref.WindowBits(p.Value); !ok || !p.HasValue {
					return fmt.Sprintf("response %q carries a malformed server_max_window_bits", respVals), out
				}
			default:
				return fmt.Sprintf("response %q carries a parameter a client may not receive: %s", respVals, p.Name), out
			}
		}
		// the response must be a legal answer to some offer that can be honoured in full
		legal, first := false, true
		for _, o := range offers {
			j := ref.JudgeOffer(o)
			if o.Name == "permessage-deflate" {
				if (j.Honourable || j.Ambiguous && j.Why == "") && (!j.ServerNoCtx || rSrvNo) && (!rCliBits || j.ClientBits) {
					legal = true
					if !first {
						out.Fallback = true
					}
					break
				}
				first = false
			}
		}
		if !legal {
			var why []string
			for _, o := range offers {
				why = append(why, ref.JudgeOffer(o).Why)
			}
			return fmt.Sprintf("compression agreed with %q but no offer in %q can be honoured in full and answered that way (%v)", respVals, offerHdr, why), out
		}
		out.Asym = rSrvNo != rCliNo
	}
	lc := &libConn{C: sv.Conn, End: sv.Peer, Lib: sv.Lib, Spec: connSpec{Client: false}, Agreed: wsx.ParseAgreed(respVals)}
	lc.Peer = newRawPeer(e, lc.End, false)
	if m := exchange(e, lc); m != "" {
		return m, out
	}
	if ps := e.Panics(); len(ps) > 0 {
		return "library panicked: " + ps[0], out
	}
	return "", out
}

func TestC14Server(t *testing.T) {
	rec := evid.For("C14")
	rec.Rule = "server: every single offer with 0-3 parameters from a 22-element RFC 7692 alphabet (both no_context_takeover flags, the flags with a value attached, client/server_max_window_bits without value, with 8..15, with malformed values, unknown parameters) x 3 server modes is enumerated; rapid adds lists of up to 3 offers (duplicates, other extensions, several header lines, odd spacing/case). client: server responses over the same grammar x 3 client modes. library<->library: all 3x3 mode pairs. After EVERY successful handshake a six-message exchange runs in both directions with the reference peer applying the parameters as the RFC reads the response (later messages repeat earlier content, so takeover really back-references). Non-trivial: an asymmetric agreement, a fallback to a later offer, or a declined offer. distinct = (parameter multiset, mode, outcome)."
	var rc c14ServerCase
	if replayCase(t, &rc) {
		var msg string
		synctest.Test(t, func(t *testing.T) { msg, _ = runC14Server(t, rc) })
		if msg != "" {
			failCase(t, "C14", rc, "%s", msg)
		}
		return
	}
	shard, shards := evid.EnvInt("VERIF_SHARD", 0), evid.EnvInt("VERIF_SHARDS", 1)
	idx := 0
	one := func(c c14ServerCase) {
		idx++
		if idx%shards != shard {
			return
		}
		var msg string
		var out c14Outcome
		synctest.Test(t, func(t *testing.T) { msg, out = runC14Server(t, c) })
		oc := "declined"
		if out.Agreed {
			oc = "agreed"
		}
		nt := out.Asym || out.Fallback || !out.Agreed && c.Mode != websocket.CompressionDisabled
		rec.Case(nt, fmt.Sprintf("srv|%v|%s|%s", c.Offers, modeName(c.Mode), oc), "server:"+oc, "server-mode:"+modeName(c.Mode))
		if out.Asym {
			rec.Class("asymmetric-agreement", 1)
		}
		if idx%400 == 0 {
			rec.Sample(map[string]any{"side": "server", "mode": modeName(c.Mode), "offers": c.Offers, "outcome": oc})
		}
		if msg != "" {
			failCase(t, "C14", c, "%s", msg)
		}
	}
	n := len(c14Params)
	for _, mode := range c01Modes {
		one(c14ServerCase{Mode: mode, Offers: []string{"permessage-deflate"}})
		for a := 0; a < n; a++ {
			one(c14ServerCase{Mode: mode, Offers: []string{"permessage-deflate; " + c14Params[a]}})
			for b := a + 1; b < n; b++ {
				one(c14ServerCase{Mode: mode, Offers: []string{"permessage-deflate; " + c14Params[a] + "; " + c14Params[b]}})
				for c := b + 1; c < n; c++ {
					one(c14ServerCase{Mode: mode, Offers: []string{"permessage-deflate; " + c14Params[a] + "; " + c14Params[b] + "; " + c14Params[c]}})
				}
			}
		}
	}
	rec.Exhaustive("all single offers with <=3 parameters of the alphabet x 3 server modes", true)
}

func TestC14ServerLists(t *testing.T) {
	rec := evid.For("C14")
	checkProp(t, func(rt *rapid.T) {
		var c c14ServerCase
		c.Mode = rapid.SampledFrom(c01Modes).Draw(rt, "mode")
		c.Lines = rapid.Bool().Draw(rt, "lines")
		for i := rapid.IntRange(1, 3).Draw(rt, "nOffers"); i > 0; i-- {
			name := rapid.SampledFrom([]string{"permessage-deflate", "permessage-deflate", "permessage-deflate", "x-webkit-deflate-frame", "other-ext", "Permessage-Deflate"}).Draw(rt, "extName")
			o := name
			for j := rapid.IntRange(0, 3).Draw(rt, "nParams"); j > 0; j-- {
				p := rapid.SampledFrom(c14Params).Draw(rt, "param")
				sep := rapid.SampledFrom([]string{"; ", ";", " ;  "}).Draw(rt, "sep")
				o += sep + p
			}
			c.Offers = append(c.Offers, o)
		}
		var msg string
		var out c14Outcome
		rapid.SyncTest(rt, func(rt *rapid.T) { msg, out = runC14Server(rt, c) })
		oc := "declined"
		if out.Agreed {
			oc = "agreed"
		}
		nt := out.Asym || out.Fallback || !out.Agreed && c.Mode != websocket.CompressionDisabled
		classes := []string{"server-list:" + oc}
		if out.Fallback {
			classes = append(classes, "fallback-to-later-offer")
		}
		rec.Case(nt, fmt.Sprintf("srvlist|%v|%v|%s|%s", c.Offers, c.Lines, modeName(c.Mode), oc), classes...)
		if rec.WantSample() {
			rec.Sample(map[string]any{"side": "server", "mode": modeName(c.Mode), "offers": c.Offers, "outcome": oc})
		}
		if msg != "" {
			rt.Fatalf("C14 server %+v: %s", c, msg)
		}
	})
}

// ---- client side ----

type c14ClientCase struct {
	Mode  websocket.CompressionMode
	Resp  string
	Lines []string // if non-nil: the response carries one Sec-WebSocket-Extensions line per element
}

func c14RespVerdict(resp string, mode websocket.CompressionMode) string {
	exts := ref.ParseExtensions([]string{resp})
	if len(exts) == 0 {
		return "ok"
	}
	if mode == websocket.CompressionDisabled {
		return "bad"
	}
	if len(exts) > 1 || exts[0].Name != "permessage-deflate" {
		if len(exts) == 1 && strings.EqualFold(exts[0].Name, "permessage-deflate") {
			return "either"
		}
		return "bad"
	}
	verdict := "ok"
	seen := map[string]bool{}
	for _, p := range exts[0].Params {
		if seen[p.Name] {
			verdict = "either"
		}
		seen[p.Name] = true
		switch p.Name {
		case "client_no_context_takeover", "server_no_context_takeover":
			if p.HasValue {
				return "bad"
			}
		case "server_max_window_bits":
			if !p.HasValue {
				return "bad"
			}
			if _, ok := ref.WindowBits(p.Value); !ok {
				verdict = "either"
			}
		default:
			return "bad"
		}
	}
	return verdict
}

func runC14Client(t fataler, c c14ClientCase) (string, c14Outcome) {
	var out c14Outcome
	e := newEnv(t)
	defer e.Teardown()
	cl, err := wsx.Dial(context.Background(), wsx.ClientCfg{Mode: c.Mode, Threshold: 1, RespExt: c.Resp, RespExts: c.Lines})
	e.track(cl.Conn, cl.Peer, cl.Lib)
	if c.Lines != nil {
		c.Resp = strings.Join(c.Lines, ", ") // several lines are one list (RFC 6455 section 9.1)
	}
	verdict := c14RespVerdict(c.Resp, c.Mode)
	if err != nil {
		cl.Peer.CloseWrite(nil)
		if verdict == "ok" {
			return fmt.Sprintf("a response the client can honour (%q for mode %s) was rejected: %v", c.Resp, modeName(c.Mode), err), out
		}
		return "", out
	}
	if verdict == "bad" {
		return fmt.Sprintf("a response the client did not offer or cannot honour (%q for mode %s) was accepted", c.Resp, modeName(c.Mode)), out
	}
	agreed := wsx.Agreed{}
	if c.Resp != "" {
		agreed = wsx.ParseAgreed([]string{c.Resp})
	}
	out.Agreed = agreed.Deflate
	out.Asym = agreed.Deflate && agreed.ClientNoCtx != agreed.ServerNoCtx
	lc := &libConn{C: cl.Conn, End: cl.Peer, Lib: cl.Lib, Spec: connSpec{Client: true}, Agreed: agreed}
	lc.Peer = newRawPeer(e, lc.End, true)
	if m := exchange(e, lc); m != "" {
		return m, out
	}
	if ps := e.Panics(); len(ps) > 0 {
		return "library panicked: " + ps[0], out
	}
	return "", out
}

var c14RespParams = []string{"client_no_context_takeover", "server_no_context_takeover", "server_max_window_bits=15", "server_max_window_bits=10", "server_max_window_bits=8",
	"server_max_window_bits", "server_max_window_bits=abc", "client_max_window_bits", "client_max_window_bits=12", "frobnicate", "server_no_context_takeover=1"}

func TestC14Client(t *testing.T) {
	rec := evid.For("C14")
	shard, shards := evid.EnvInt("VERIF_SHARD", 0), evid.EnvInt("VERIF_SHARDS", 1)
	idx := 0
	one := func(c c14ClientCase) {
		idx++
		if idx%shards != shard {
			return
		}
		var msg string
		var out c14Outcome
		synctest.Test(t, func(t *testing.T) { msg, out = runC14Client(t, c) })
		oc := "no-compression-or-rejected"
		if out.Agreed {
			oc = "agreed"
		}
		rec.Case(out.Asym || !out.Agreed && c.Resp != "", fmt.Sprintf("cli|%s|%v|%s|%s", c.Resp, c.Lines, modeName(c.Mode), oc), "client:"+oc, "client-mode:"+modeName(c.Mode))
		if out.Asym {
			rec.Class("asymmetric-agreement", 1)
		}
		if idx%60 == 0 {
			rec.Sample(map[string]any{"side": "client", "mode": modeName(c.Mode), "response": c.Resp, "outcome": oc})
		}
		if msg != "" {
			failCase(t, "C14", c, "%s", msg)
		}
	}
	n := len(c14RespParams)
	for _, mode := range c01Modes {
		for _, r := range []string{"", "permessage-deflate", "x-other", "permessage-deflate, x-other", "x-other, permessage-deflate", "permessage-deflate, permessage-deflate", "Permessage-Deflate", "x-webkit-deflate-frame"} {
			one(c14ClientCase{Mode: mode, Resp: r})
		}
		for a := 0; a < n; a++ {
			one(c14ClientCase{Mode: mode, Resp: "permessage-deflate; " + c14RespParams[a]})
			for b := 0; b < n; b++ {
				if b == a {
					continue
				}
				one(c14ClientCase{Mode: mode, Resp: "permessage-deflate; " + c14RespParams[a] + "; " + c14RespParams[b]})
			}
		}
		one(c14ClientCase{Mode: mode, Resp: "permessage-deflate; client_no_context_takeover; server_no_context_takeover; server_max_window_bits=12"})
		// the same lists spread over several header lines
		for _, lines := range [][]string{
			{"permessage-deflate", "x-other"}, {"x-other", "permessage-deflate"}, {"", "permessage-deflate"}, {"permessage-deflate", ""},
			{"permessage-deflate; server_no_context_takeover", "permessage-deflate; client_max_window_bits=9"}, {"", "permessage-deflate; client_no_context_takeover"},
			{"permessage-deflate; client_no_context_takeover"}, {" ", "x-other"},
		} {
			one(c14ClientCase{Mode: mode, Lines: lines})
		}
	}
	rec.Exhaustive("all responses with <=2 parameters of the response alphabet x 3 client modes", true)
}

// TestC14LibLib: all 3x3 mode pairs negotiate and then exchange in both directions.
func TestC14LibLib(t *testing.T) {
	rec := evid.For("C14")
	msgs := exchangeMsgs()
	for _, cm := range c01Modes {
		for _, sm := range c01Modes {
			var msg string
			var agreed bool
			synctest.Test(t, func(t *testing.T) {
				e := newEnv(t)
				defer e.Teardown()
				pr, err := e.openPair(pairSpec{ClMode: cm, SvMode: sm, ClThreshold: 1, SvThreshold: 1})
				if err != nil {
					msg = "handshake: " + err.Error()
					return
				}
				agreed = pr.Agreed.Deflate
				if agreed != (cm != websocket.CompressionDisabled && sm != websocket.CompressionDisabled) {
					msg = fmt.Sprintf("compression agreed=%v for client mode %s, server mode %s: it must be used only when both sides enabled it", agreed, modeName(cm), modeName(sm))
					return
				}
				for _, dir := range []struct{ from, to *websocket.Conn }{{pr.Cl, pr.Sv}, {pr.Sv, pr.Cl}} {
					dir := dir
					dir.to.SetReadLimit(1 << 20)
					var werr, rerr error
					var bad int = -1
					wd := e.Call(func() {
						for _, m := range msgs {
							if werr = dir.from.Write(context.Background(), websocket.MessageText, m); werr != nil {
								return
							}
						}
					})
					rd := e.Call(func() {
						for i, m := range msgs {
							_, got, err := dir.to.Read(context.Background())
							if err != nil {
								rerr = err
								return
							}
							if !bytes.Equal(got, m) {
								bad = i
								return
							}
						}
					})
					if !within(wd, 60*time.Second) || !within(rd, 60*time.Second) || werr != nil || rerr != nil || bad >= 0 {
						msg = fmt.Sprintf("exchange failed: werr=%v rerr=%v bad=%d", werr, rerr, bad)
						return
					}
				}
				// the wire must show compression exactly when it was agreed
				rep, _ := ref.ValidateStream(pr.ClientWire(), ref.StreamOpts{FromClient: true, Deflate: agreed, Takeover: pr.Agreed.SenderTakeover(true)}, true)
				if rep != nil && (rep.Rsv1Msgs > 0) != agreed {
					msg = fmt.Sprintf("RSV1 messages on the wire: %d, compression agreed: %v", rep.Rsv1Msgs, agreed)
				}
			})
			rec.Case(true, fmt.Sprintf("liblib|%s|%s|%v", modeName(cm), modeName(sm), agreed), "liblib")
			if msg != "" {
				failCase(t, "C14", fmt.Sprintf("liblib %s/%s", modeName(cm), modeName(sm)), "%s", msg)
			}
		}
	}
}

// Regression replays for findings D9 and D11.
func TestC14Regress(t *testing.T) {
	for _, o := range []string{"permessage-deflate; client_max_window_bits=abc", "permessage-deflate; client_max_window_bits=7", "permessage-deflate; client_max_window_bits=", "permessage-deflate; client_max_window_bits=016"} {
		for _, mode := range c01Modes[1:] {
			c := c14ServerCase{Mode: mode, Offers: []string{o}}
			var msg string
			synctest.Test(t, func(t *testing.T) { msg, _ = runC14Server(t, c) })
			evid.For("C14").Case(true, "regress|D9|"+o+modeName(mode), "regression-replay")
			if msg != "" {
				failCase(t, "C14", c, "D9: %s", msg)
			}
		}
	}
	for _, r := range []string{"permessage-deflate", "permessage-deflate; client_no_context_takeover", "permessage-deflate; server_max_window_bits=12"} {
		c := c14ClientCase{Mode: websocket.CompressionNoContextTakeover, Resp: r}
		var msg string
		synctest.Test(t, func(t *testing.T) { msg, _ = runC14Client(t, c) })
		evid.For("C14").Case(true, "regress|D11|"+r, "regression-replay")
		if msg != "" {
			failCase(t, "C14", c, "D11: %s", msg)
		}
	}
}

// TestC14Interleaved: several connections negotiated one after the other, with different
// offers and modes, stay open and keep exchanging compressed messages: what a later
// handshake agrees on must not change what an earlier connection holds.
func TestC14Interleaved(t *testing.T) {
	rec := evid.For("C14")
	type side struct {
		Client bool
		Mode   websocket.CompressionMode
		Ext    string
	}
	serverOffers := []string{"permessage-deflate", "permessage-deflate; client_no_context_takeover", "permessage-deflate; server_no_context_takeover", "permessage-deflate; client_no_context_takeover; server_no_context_takeover", "permessage-deflate; client_max_window_bits"}
	clientResps := []string{"permessage-deflate", "permessage-deflate; client_no_context_takeover", "permessage-deflate; server_no_context_takeover", "permessage-deflate; client_no_context_takeover; server_no_context_takeover"}
	first := true
	checkProp(t, func(rt *rapid.T) {
		n := rapid.IntRange(2, 4).Draw(rt, "nConns")
		sides := make([]side, n)
		for i := range sides {
			sides[i].Client = rapid.Bool().Draw(rt, "client")
			sides[i].Mode = rapid.SampledFrom(c01Modes[1:]).Draw(rt, "mode")
			if sides[i].Client {
				sides[i].Ext = rapid.SampledFrom(clientResps).Draw(rt, "resp")
				if sides[i].Mode == websocket.CompressionNoContextTakeover {
					sides[i].Ext = clientResps[3]
				}
			} else {
				sides[i].Ext = rapid.SampledFrom(serverOffers).Draw(rt, "offer")
			}
		}
		if first {
			// the very first case of the process is fixed: a plain takeover agreement, then one
			// that asks for no takeover on both sides, on servers and on clients (process-wide
			// negotiation state would still be pristine here)
			first = false
			sides = []side{
				{false, websocket.CompressionContextTakeover, serverOffers[0]},
				{false, websocket.CompressionContextTakeover, serverOffers[3]},
				{true, websocket.CompressionContextTakeover, clientResps[0]},
				{true, websocket.CompressionContextTakeover, clientResps[3]},
			}
		}
		var fail string
		rapid.SyncTest(rt, func(rt *rapid.T) {
			e := newEnv(rt)
			defer e.Teardown()
			type live struct {
				lc   *libConn
				def  *ref.Deflater
				sent [][]byte
				k    int
			}
			var conns []*live
			msgs := exchangeMsgs()
			round := func(l *live, who int) bool {
				// two messages peer -> library, two library -> peer, continuing this connection's history
				for j := 0; j < 2; j++ {
					m := msgs[(l.k+j)%len(msgs)]
					l.lc.Peer.send(ref.Frame{Fin: true, Opcode: ref.OpText, Rsv1: true, Payload: l.def.Message(m, ref.DVSync)})
					var got []byte
					var err error
					d := e.Call(func() { _, got, err = l.lc.C.Read(context.Background()) })
					if !within(d, 30*time.Second) || err != nil || !bytes.Equal(got, m) {
						fail = fmt.Sprintf("connection %d (%+v, agreed %+v): message %d from the peer failed to decode after %d connections had been negotiated: %v", who, sides[who], l.lc.Agreed, l.k+j, len(conns), err)
						return false
					}
					var werr error
					d = e.Call(func() { werr = l.lc.C.Write(context.Background(), websocket.MessageText, m) })
					if !within(d, 30*time.Second) || werr != nil {
						fail = fmt.Sprintf("connection %d: write failed: %v", who, werr)
						return false
					}
					l.sent = append(l.sent, m)
				}
				l.k += 2
				return true
			}
			for i, sd := range sides {
				lc, err := e.open(connSpec{Client: sd.Client, Mode: sd.Mode, Threshold: 1, Ext: sd.Ext})
				if err != nil {
					fail = "handshake: " + err.Error()
					return
				}
				lc.C.SetReadLimit(1 << 20)
				lc.Peer.onFrame = func(f ref.Frame) {
					if f.Opcode == ref.OpClose {
						lc.Peer.send(ref.Frame{Fin: true, Opcode: ref.OpClose, Payload: f.Payload})
					}
				}
				lc.Peer.start(e)
				conns = append(conns, &live{lc: lc, def: ref.NewDeflater(lc.Agreed.SenderTakeover(!sd.Client))})
				// every connection negotiated so far goes on talking
				for who, l := range conns {
					if !round(l, who) {
						return
					}
				}
				_ = i
			}
			for who, l := range conns {
				d := e.Call(func() { l.lc.C.Close(websocket.StatusNormalClosure, "") })
				within(d, 30*time.Second)
				l.lc.Peer.waitEOF(30 * time.Second)
				sd := sides[who]
				rep, verr := ref.ValidateStream(l.lc.End.InRecording(), ref.StreamOpts{FromClient: sd.Client, Deflate: l.lc.Agreed.Deflate, Takeover: l.lc.Agreed.SenderTakeover(sd.Client)}, true)
				if verr != nil {
					fail = fmt.Sprintf("connection %d (%+v, agreed %+v): what the library sent does not decode under the parameters of ITS OWN handshake: %v", who, sd, l.lc.Agreed, verr)
					return
				}
				if len(rep.Messages) != len(l.sent) {
					fail = fmt.Sprintf("connection %d: %d of %d messages on the wire", who, len(rep.Messages), len(l.sent))
					return
				}
			}
		})
		rec.Case(true, fmt.Sprintf("interleaved|%+v", sides), "interleaved-connections")
		if fail != "" {
			rt.Fatalf("C14 interleaved %+v: %s", sides, fail)
		}
	})
}

// TestC14SharedHeader: an application that keeps one http.Header for all its
// Dials. What each Dial offers is decided by its own CompressionMode alone: the
// offers of earlier Dials must not ride along in the caller's header map, or a
// client with compression disabled ends up negotiating (or failing on) an
// extension it never meant to offer.
func TestC14SharedHeader(t *testing.T) {
	rec := evid.For("C14")
	checkProp(t, func(rt *rapid.T) {
		hdr := http.Header{}
		if rapid.Bool().Draw(rt, "customHeader") {
			hdr.Set("X-App", "1")
		}
		n := rapid.IntRange(2, 5).Draw(rt, "nDials")
		shape := ""
		for i := 0; i < n; i++ {
			mode := rapid.SampledFrom(c01Modes).Draw(rt, "mode")
			shape += modeName(mode) + ">"
			// the scripted server agrees to whatever is on the wire, as a compression-enabled server does
			before := hdr.Clone()
			cl, err := wsx.Dial(context.Background(), wsx.ClientCfg{Mode: mode, Header: hdr, RespExt: ""})
			if cl.Conn != nil {
				cl.Conn.CloseNow()
			}
			cl.Peer.Close()
			if err != nil {
				rt.Fatalf("C14 shared header: dial %d (%s after %s) failed: %v", i, modeName(mode), shape, err)
			}
			exts := ref.ParseExtensions(cl.Req.Header.Values("Sec-WebSocket-Extensions"))
			switch {
			case mode == websocket.CompressionDisabled && len(exts) != 0:
				rt.Fatalf("C14 shared header: dial %d has compression disabled but offers %v on the wire (history: %s)", i, exts, shape)
			case mode != websocket.CompressionDisabled && (len(exts) != 1 || exts[0].Name != "permessage-deflate"):
				rt.Fatalf("C14 shared header: dial %d (%s) offers %v (history: %s)", i, modeName(mode), exts, shape)
			case mode != websocket.CompressionDisabled:
				j := ref.JudgeOffer(exts[0])
				if want := mode == websocket.CompressionNoContextTakeover; !j.Honourable || j.ClientNoCtx != want || j.ServerNoCtx != want {
					rt.Fatalf("C14 shared header: dial %d (%s) offers %v (history: %s)", i, modeName(mode), exts, shape)
				}
			}
			if !reflect.DeepEqual(hdr, before) {
				rt.Fatalf("C14 shared header: dial %d (%s) changed the caller's header map: %v -> %v", i, modeName(mode), before, hdr)
			}
		}
		rec.Case(true, "shared-header|"+shape, "dials-sharing-one-header-map")
	})
}
