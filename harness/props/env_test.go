package props

import (
	"context"
	"fmt"
	"net/http"
	"runtime/debug"
	"sync"
	"time"

	"nhooyr.io/websocket"
	"verif/harness/memconn"
	"verif/harness/ref"
	"verif/harness/wsx"
)

// fataler is what both *testing.T and *rapid.T offer.
type fataler interface {
	Fatalf(format string, args ...any)
	Logf(format string, args ...any)
	Helper()
}

// env owns every goroutine, transport and connection of one case so that a
// failing case (or a library call that blocks forever) cannot wedge a bubble:
// Teardown closes everything and joins all harness goroutines.
type env struct {
	t       fataler
	done    chan struct{}
	wg      sync.WaitGroup
	mu      sync.Mutex
	conns   []*websocket.Conn
	ends    []*memconn.End
	panics  []string
	cancels []context.CancelFunc
	torn    bool
}

func newEnv(t fataler) *env {
	return &env{t: t, done: make(chan struct{})}
}

// Go runs f on a harness goroutine; a panic (e.g. out of the library) is
// captured and reported by Teardown/CheckPanics instead of killing the binary.
func (e *env) Go(f func()) {
	e.wg.Add(1)
	go func() {
		defer e.wg.Done()
		defer func() {
			if r := recover(); r != nil {
				e.mu.Lock()
				e.panics = append(e.panics, fmt.Sprintf("panic: %v\n%s", r, debug.Stack()))
				e.mu.Unlock()
			}
		}()
		f()
	}()
}

// Call runs f on its own goroutine and returns a channel closed when it returned.
func (e *env) Call(f func()) <-chan struct{} {
	ch := make(chan struct{})
	e.Go(func() {
		defer close(ch)
		f()
	})
	return ch
}

func (e *env) track(c *websocket.Conn, ends ...*memconn.End) {
	e.mu.Lock()
	if c != nil {
		e.conns = append(e.conns, c)
	}
	e.ends = append(e.ends, ends...)
	e.mu.Unlock()
}

func (e *env) ctx() context.Context {
	ctx, cancel := context.WithCancel(context.Background())
	e.mu.Lock()
	e.cancels = append(e.cancels, cancel)
	e.mu.Unlock()
	return ctx
}

// Teardown must be deferred at the top of every case.
func (e *env) Teardown() {
	e.mu.Lock()
	if e.torn {
		e.mu.Unlock()
		return
	}
	e.torn = true
	conns, ends, cancels := e.conns, e.ends, e.cancels
	e.mu.Unlock()
	close(e.done)
	for _, en := range ends {
		en.Close()
	}
	for _, c := range cancels {
		c()
	}
	for _, c := range conns {
		c.CloseNow()
	}
	e.wg.Wait()
}

// Panics returns captured panics (call after joining).
func (e *env) Panics() []string {
	e.mu.Lock()
	defer e.mu.Unlock()
	return append([]string(nil), e.panics...)
}

// within waits until ch is closed or d of (virtual) time passes.
func within(ch <-chan struct{}, d time.Duration) bool {
	t := time.NewTimer(d)
	defer t.Stop()
	select {
	case <-ch:
		return true
	case <-t.C:
		return false
	}
}

// rawPeer is the harness's scripted remote endpoint: it parses whatever the
// library writes into frames (recording the virtual time of each) and writes
// frames produced by the reference encoder.
type rawPeer struct {
	end         *memconn.End
	libIsClient bool
	keySeq      uint32
	sendMu      sync.Mutex // serialises the peer's own writers (frames stay atomic)

	mu     sync.Mutex
	cond   *sync.Cond
	frames []ref.Frame
	times  []time.Time
	buf    []byte
	eof    bool
	eofAt  time.Time
	perr   error
	// onFrame runs on the peer's reader goroutine for every frame received.
	onFrame func(f ref.Frame)
}

func newRawPeer(e *env, end *memconn.End, libIsClient bool) *rawPeer {
	p := &rawPeer{end: end, libIsClient: libIsClient, keySeq: 0x1badb002}
	p.cond = sync.NewCond(&p.mu)
	return p
}

// start launches the reader.
func (p *rawPeer) start(e *env) {
	e.Go(func() {
		tmp := make([]byte, 65536)
		for {
			n, err := p.end.Read(tmp)
			p.mu.Lock()
			p.buf = append(p.buf, tmp[:n]...)
			var got []ref.Frame
			for {
				fs, rest, perr := ref.ParseFrames(p.buf)
				if perr != nil {
					p.perr = perr
					break
				}
				got = append(got, fs...)
				p.buf = append([]byte(nil), rest...)
				break
			}
			now := time.Now()
			for _, f := range got {
				p.frames = append(p.frames, f)
				p.times = append(p.times, now)
			}
			if err != nil {
				p.eof = true
				p.eofAt = now
			}
			cb := p.onFrame
			p.cond.Broadcast()
			p.mu.Unlock()
			if cb != nil {
				for _, f := range got {
					cb(f)
				}
			}
			if err != nil {
				return
			}
		}
	})
}

func (p *rawPeer) nextKey() [4]byte {
	p.keySeq = p.keySeq*1664525 + 1013904223
	k := p.keySeq
	return [4]byte{byte(k), byte(k >> 8), byte(k >> 16), byte(k >> 24)}
}

// prep sets the masking the peer's role requires unless the frame was built
// with explicit (possibly wrong) masking.
func (p *rawPeer) prep(f ref.Frame) ref.Frame {
	if !p.libIsClient { // peer is the client: mask
		f.Masked = true
		f.Key = p.nextKey()
	}
	return f
}

// send writes one frame with correct masking for the peer's role.
func (p *rawPeer) send(f ref.Frame) error {
	p.sendMu.Lock()
	defer p.sendMu.Unlock()
	_, err := p.end.Write(p.prep(f).Encode())
	return err
}

func (p *rawPeer) sendRaw(b []byte) error {
	p.sendMu.Lock()
	defer p.sendMu.Unlock()
	_, err := p.end.Write(b)
	return err
}

// waitFor blocks until pred (called with p.mu held) is true or d passes.
func (p *rawPeer) waitFor(d time.Duration, pred func() bool) bool {
	deadline := time.Now().Add(d)
	timer := time.AfterFunc(d, func() {
		p.mu.Lock()
		p.cond.Broadcast()
		p.mu.Unlock()
	})
	defer timer.Stop()
	p.mu.Lock()
	defer p.mu.Unlock()
	for !pred() {
		if !time.Now().Before(deadline) {
			return false
		}
		p.cond.Wait()
	}
	return true
}

func (p *rawPeer) waitFrames(n int, d time.Duration) bool {
	return p.waitFor(d, func() bool { return len(p.frames) >= n || p.eof })
}

func (p *rawPeer) waitEOF(d time.Duration) bool {
	return p.waitFor(d, func() bool { return p.eof })
}

func (p *rawPeer) waitOpcode(op byte, d time.Duration) bool {
	return p.waitFor(d, func() bool {
		for _, f := range p.frames {
			if f.Opcode == op {
				return true
			}
		}
		return p.eof
	})
}

func (p *rawPeer) snapshot() ([]ref.Frame, []time.Time) {
	p.mu.Lock()
	defer p.mu.Unlock()
	return append([]ref.Frame(nil), p.frames...), append([]time.Time(nil), p.times...)
}

func (p *rawPeer) isEOF() bool {
	p.mu.Lock()
	defer p.mu.Unlock()
	return p.eof
}

// connSpec describes how to obtain a library connection against a raw peer.
type connSpec struct {
	Client    bool
	Mode      websocket.CompressionMode
	Threshold int
	// For a client: the scripted server's extension response. For a server:
	// the scripted client's offer. "" with Mode != Disabled means "mirror what
	// the library side would agree with": the harness fills in a default.
	Ext string
	// Pipelined (server role): client bytes that arrive together with the handshake request and are
	// therefore already buffered in the hijacked bufio.Reader when Accept takes the connection over.
	Pipelined []byte
	// ReaderSize (server role): size of the bufio.Reader the fake Hijacker hands over (0 = 4096)
	ReaderSize int
	// DialCtx / DialTimeout (client role): the context Dial runs under (nil = Background) and the http.Client's Timeout
	DialCtx     context.Context `json:"-"`
	DialTimeout time.Duration
}

// libConn is a library connection plus the facts of its handshake.
type libConn struct {
	C      *websocket.Conn
	Peer   *rawPeer
	End    *memconn.End // harness side
	Lib    *memconn.End
	Agreed wsx.Agreed
	Spec   connSpec
}

// open creates a library connection whose remote end is a raw scripted peer.
func (e *env) open(spec connSpec) (*libConn, error) {
	lc := &libConn{Spec: spec}
	if spec.Client {
		dctx := spec.DialCtx
		if dctx == nil {
			dctx = context.Background()
		}
		cl, err := wsx.Dial(dctx, wsx.ClientCfg{Mode: spec.Mode, Threshold: spec.Threshold, RespExt: spec.Ext, Timeout: spec.DialTimeout})
		e.track(cl.Conn, cl.Peer, cl.Lib)
		if err != nil {
			return nil, err
		}
		lc.C, lc.End, lc.Lib = cl.Conn, cl.Peer, cl.Lib
		if spec.Ext != "" {
			lc.Agreed = wsx.ParseAgreed([]string{spec.Ext})
		}
	} else {
		sv, err := wsx.Accept(wsx.ServerCfg{Mode: spec.Mode, Threshold: spec.Threshold, Offer: spec.Ext, Pipelined: spec.Pipelined, ReaderSize: spec.ReaderSize})
		e.track(sv.Conn, sv.Peer, sv.Lib)
		if err != nil {
			return nil, err
		}
		lc.C, lc.End, lc.Lib = sv.Conn, sv.Peer, sv.Lib
		lc.Agreed = wsx.ParseAgreed(sv.W.H.Values("Sec-WebSocket-Extensions"))
	}
	lc.Peer = newRawPeer(e, lc.End, spec.Client)
	return lc, nil
}

// pairSpec describes a library client joined to a library server.
type pairSpec struct {
	ClMode, SvMode           websocket.CompressionMode
	ClThreshold, SvThreshold int
	Capacity                 int // bytes buffered per direction (0 = unbounded)
	MaxRead                  int // cap on each transport read (0 = none)
	// AfterDial, if set, selects the "early client" handshake: the client sees the
	// 101 when the server decides the status line (as with net/http), AfterDial runs
	// as soon as Dial has returned (it is expected to start writing), and the
	// server's Hijack waits for the first client bytes so that they are already in
	// the hijacked bufio.Reader when Accept takes the connection over.
	AfterDial func(cl *websocket.Conn) `json:"-"`
}

type pair struct {
	Cl, Sv       *websocket.Conn
	ClEnd, SvEnd *memconn.End
	Agreed       wsx.Agreed
}

// ClientWire returns everything the client has written so far; ServerWire likewise.
func (p *pair) ClientWire() []byte { return p.SvEnd.InRecording() }
func (p *pair) ServerWire() []byte { return p.ClEnd.InRecording() }

type rtf func(*http.Request) (*http.Response, error)

func (f rtf) RoundTrip(r *http.Request) (*http.Response, error) { return f(r) }

func (e *env) openPair(s pairSpec) (*pair, error) {
	clEnd, svEnd := memconn.Pipe()
	if s.Capacity > 0 {
		clEnd.SetOutCapacity(s.Capacity)
		svEnd.SetOutCapacity(s.Capacity)
	}
	if s.MaxRead > 0 {
		clEnd.SetPeerMaxRead(s.MaxRead)
		svEnd.SetPeerMaxRead(s.MaxRead)
	}
	pr := &pair{ClEnd: clEnd, SvEnd: svEnd}
	var acceptErr error
	type accepted struct {
		sv  *wsx.Server
		err error
	}
	accCh := make(chan accepted, 1)
	rt := rtf(func(r *http.Request) (*http.Response, error) {
		r2, _ := http.NewRequest("GET", "http://verif.test/ws", nil)
		r2.Header = r.Header.Clone()
		if s.AfterDial != nil {
			type decided struct {
				code int
				h    http.Header
			}
			hdr := make(chan decided, 1)
			w := wsx.NewRespWriter(svEnd)
			w.OnHeader = func(code int, h http.Header) { hdr <- decided{code, h} }
			w.WaitPending = 2 * time.Second
			e.Go(func() {
				sv, err := wsx.AcceptWith(w, r2, &websocket.AcceptOptions{CompressionMode: s.SvMode, CompressionThreshold: s.SvThreshold})
				accCh <- accepted{sv, err}
			})
			select {
			case d := <-hdr:
				if d.code != http.StatusSwitchingProtocols {
					a := <-accCh
					accCh <- a
					acceptErr = a.err
					return nil, fmt.Errorf("server answered %d: %v", d.code, a.err)
				}
				pr.Agreed = wsx.ParseAgreed(d.h.Values("Sec-WebSocket-Extensions"))
				return &http.Response{Status: "101 Switching Protocols", StatusCode: d.code, Proto: "HTTP/1.1", ProtoMajor: 1, ProtoMinor: 1,
					Header: d.h, Body: clEnd, Request: r}, nil
			case a := <-accCh:
				accCh <- a
				acceptErr = a.err
				return nil, fmt.Errorf("accept ended without a status line: %v", a.err)
			}
		}
		sv, err := wsx.AcceptOn(svEnd, r2, &websocket.AcceptOptions{CompressionMode: s.SvMode, CompressionThreshold: s.SvThreshold})
		if err != nil {
			acceptErr = err
			return nil, err
		}
		pr.Sv = sv.Conn
		pr.Agreed = wsx.ParseAgreed(sv.W.H.Values("Sec-WebSocket-Extensions"))
		return &http.Response{Status: "101 Switching Protocols", StatusCode: sv.W.Code, Proto: "HTTP/1.1", ProtoMajor: 1, ProtoMinor: 1,
			Header: sv.W.H, Body: clEnd, Request: r}, nil
	})
	c, _, err := websocket.Dial(context.Background(), "ws://verif.test/ws", &websocket.DialOptions{
		HTTPClient: &http.Client{Transport: rt}, CompressionMode: s.ClMode, CompressionThreshold: s.ClThreshold})
	e.track(c, clEnd, svEnd)
	e.track(pr.Sv)
	if err != nil {
		if acceptErr != nil {
			return nil, acceptErr
		}
		return nil, err
	}
	pr.Cl = c
	if s.AfterDial != nil {
		s.AfterDial(c)
		a := <-accCh
		if a.err != nil {
			return nil, a.err
		}
		pr.Sv = a.sv.Conn
		e.track(pr.Sv)
	}
	return pr, nil
}
