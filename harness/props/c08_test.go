package props

import (
	"bytes"
	"compress/flate"
	"context"
	"encoding/json"
	"fmt"
	"io"
	"math"
	"runtime"
	"testing"
	"testing/synctest"
	"time"

	"nhooyr.io/websocket"
	"nhooyr.io/websocket/wsjson"
	"pgregory.net/rapid"
	"verif/harness/evid"
	"verif/harness/ref"
)

// C08 — read limit and memory bounds hold for every sender, including compressed input.

const c08Default = int64(-2) // "never call SetReadLimit": the documented default of 32768 applies

type c08Msg struct {
	Size     int
	Kind     int // content kind: ckZero, ckPattern, ckRandom, ckText; -1 = JSON digits
	Compress bool
	Variant  ref.DeflateVariant
	Frags    int
	SetLimit int64 // limit set before reading this message (c08Default = leave)
	Late     bool  // the limit is set from another goroutine while the Read for this message is already waiting
	// Again (API reader): after the first Read of this message that handed out data, the application sets the
	// limit that is in force once more - the same number (configuration applied again). The limit has not
	// changed, so neither has what may be delivered
	Again bool
}

type c08Huge struct {
	Declared uint64
	Trickle  int
	End      string // eof | stall-then-close
}

type c08Case struct {
	Mode  c03Mode
	Msgs  []c08Msg
	Huge  *c08Huge
	API   string // reader | read | wsjson | netconn
	Buf   int
	Chunk int // transport max read (0 = none)
	// WriterOpen: the reading goroutine has a message of its own open (Writer, one Write,
	// no Close yet - an echo loop copying into a writer) while it reads
	WriterOpen bool
}

func (c c08Case) String() string {
	s := fmt.Sprintf("{mode=%s api=%s buf=%d chunk=%d writerOpen=%v msgs=[", c.Mode.Name, c.API, c.Buf, c.Chunk, c.WriterOpen)
	for _, m := range c.Msgs {
		s += fmt.Sprintf("{size=%d kind=%d comp=%v/%v frags=%d setlimit=%d late=%v again=%v}", m.Size, m.Kind, m.Compress, m.Variant, m.Frags, m.SetLimit, m.Late, m.Again)
	}
	s += "]"
	if c.Huge != nil {
		s += fmt.Sprintf(" huge={declared=%d trickle=%d end=%s}", c.Huge.Declared, c.Huge.Trickle, c.Huge.End)
	}
	return s + "}"
}

var c08Limits = []int64{c08Default, -1, 0, 1, 2, 125, 126, 4095, 4096, 32768, 65536, 1 << 20, 1 << 20, math.MaxInt64, math.MaxInt64 - 1, 1 << 62}

func effLimit(l int64) int64 {
	if l == c08Default {
		return 32768
	}
	return l
}

func genC08(rt *rapid.T) c08Case {
	var c c08Case
	c.Mode = rapid.SampledFrom(c03Modes).Draw(rt, "mode")
	deflate := c.Mode.Mode != websocket.CompressionDisabled
	c.API = rapid.SampledFrom([]string{"reader", "reader", "read", "wsjson", "netconn"}).Draw(rt, "api")
	c.Buf = rapid.SampledFrom([]int{1, 7, 512, 4096, 32768, 70000}).Draw(rt, "buf")
	c.Chunk = rapid.SampledFrom([]int{0, 0, 1, 100, 4096}).Draw(rt, "chunk")
	c.WriterOpen = c.API != "netconn" && rapid.IntRange(0, 3).Draw(rt, "writerOpen") == 0
	n := rapid.IntRange(1, 3).Draw(rt, "nMsgs")
	cur := c08Default
	for i := 0; i < n; i++ {
		var m c08Msg
		m.SetLimit = c08Default
		if i == 0 || rapid.IntRange(0, 2).Draw(rt, "changeLimit") == 0 {
			m.SetLimit = rapid.SampledFrom(c08Limits).Draw(rt, "limit")
			if m.SetLimit != c08Default {
				cur = m.SetLimit
			}
		}
		L := effLimit(cur)
		var sizes []int
		if L < 0 || L > 1<<40 || c.API == "netconn" {
			sizes = []int{0, 1, 32767, 32768, 32769, 100000, 1 << 20}
		} else {
			sizes = []int{int(L) - 1, int(L), int(L) + 1, int(L) + 2, 2 * int(L), 10 * int(L), 0, 1}
		}
		m.Size = rapid.SampledFrom(sizes).Draw(rt, "size")
		if m.Size < 0 {
			m.Size = 0
		}
		m.Kind = rapid.SampledFrom([]int{ckZero, ckPattern, ckRandom, ckText}).Draw(rt, "kind")
		if m.Size > 2<<20 && m.Kind == ckRandom {
			m.Kind = ckPattern
		}
		if c.API == "wsjson" {
			// a number of Size digits, or a small complete value followed by white space up to Size
			m.Kind = rapid.SampledFrom([]int{-1, -2}).Draw(rt, "jsonKind")
			if m.Size == 0 {
				m.Size = 1
			}
		}
		if deflate {
			m.Compress = rapid.IntRange(0, 2).Draw(rt, "compress") != 0
			m.Variant = ref.DeflateVariant(rapid.IntRange(0, int(ref.NumDeflateVariants)-1).Draw(rt, "variant"))
		}
		m.Frags = rapid.IntRange(1, 4).Draw(rt, "frags")
		m.Late = m.SetLimit != c08Default && c.API != "netconn" && rapid.IntRange(0, 2).Draw(rt, "late") == 0
		m.Again = c.API == "reader" && !m.Late && rapid.IntRange(0, 2).Draw(rt, "sameLimitAgainMidMessage") == 0
		c.Msgs = append(c.Msgs, m)
	}
	if underFuzzEngine && c.Buf < 512 {
		for _, m := range c.Msgs {
			if m.Size > 200000 {
				c.Buf = 4096 // not millions of tiny reads inside the fuzz engine's 10 s per input
			}
		}
	}
	if rapid.IntRange(0, 4).Draw(rt, "huge") == 0 && c.API != "wsjson" {
		c.Huge = &c08Huge{
			Declared: rapid.SampledFrom([]uint64{1 << 32, 1<<32 + 5, 1<<62 + 12345, 1<<63 - 1, 1 << 40}).Draw(rt, "declared"),
			Trickle:  rapid.SampledFrom([]int{0, 1, 5000, 40000}).Draw(rt, "trickle"),
			End:      rapid.SampledFrom([]string{"eof", "eof", "stall-then-close"}).Draw(rt, "hugeEnd"),
		}
	}
	return c
}

func c08Payload(m c08Msg, i int) []byte {
	if m.Kind == -2 && m.Size >= 7 {
		b := bytes.Repeat([]byte{' '}, m.Size)
		copy(b, `{"a":1}`)
		for j := 7; j < len(b); j += 61 {
			b[j] = '\n'
		}
		return b
	}
	if m.Kind == -1 || m.Kind == -2 {
		b := make([]byte, m.Size)
		for j := range b {
			b[j] = byte('1' + (j+i)%9)
		}
		return b
	}
	return expand(m.Kind, uint64(i)*977+uint64(m.Size), m.Size)
}

type c08Result struct {
	NearLimit, CompOver, Huge bool
	AllocDelta                uint64
	Delivered                 int
}

func runC08(t fataler, c c08Case) (string, c08Result) {
	var res c08Result
	e := newEnv(t)
	defer e.Teardown()
	lc, err := e.open(connSpec{Client: c.Mode.Client, Mode: c.Mode.Mode, Ext: c.Mode.Ext})
	if err != nil {
		return "handshake: " + err.Error(), res
	}
	takeover := lc.Agreed.SenderTakeover(!c.Mode.Client)
	def := ref.NewDeflater(takeover)
	// build the stream up front
	var frames []ref.Frame
	payloads := make([][]byte, len(c.Msgs))
	msgEnd := make([]int, len(c.Msgs)) // number of frames up to and including message i
	for i, m := range c.Msgs {
		p := c08Payload(m, i)
		payloads[i] = p
		raw := p
		comp := m.Compress && lc.Agreed.Deflate
		if comp {
			raw = def.Message(p, m.Variant)
		}
		op := byte(ref.OpBinary)
		if c.API == "wsjson" {
			op = ref.OpText
		}
		nf := m.Frags
		per := len(raw)/nf + 1
		for j, off := 0, 0; j < nf; j++ {
			end := off + per
			if end > len(raw) || j == nf-1 {
				end = len(raw)
			}
			f := ref.Frame{Fin: j == nf-1, Payload: raw[off:end]}
			if j == 0 {
				f.Opcode = op
				f.Rsv1 = comp
			}
			frames = append(frames, f)
			off = end
		}
		msgEnd[i] = len(frames)
	}
	_, stream, frameEnds := finishMasking(frames, c.Mode.Client)
	late := false
	for _, m := range c.Msgs {
		late = late || m.Late
	}
	if c.Huge != nil {
		hf := ref.Frame{Fin: true, Opcode: ref.OpBinary, Payload: expand(ckPattern, 99, c.Huge.Trickle), DeclaredLen: &c.Huge.Declared}
		hs, hstream, _ := finishMasking([]ref.Frame{hf}, c.Mode.Client)
		_ = hs
		stream = append(stream, hstream...)
	}
	lc.Peer.start(e)
	if c.Chunk > 0 {
		lc.End.SetPeerMaxRead(c.Chunk)
	}
	ready := make([]chan struct{}, len(c.Msgs))
	for i := range ready {
		ready[i] = make(chan struct{})
	}
	if !late {
		lc.End.Write(stream)
	} else {
		// message by message: a "late" limit is set while the reader already waits for the message
		e.Go(func() {
			prev := 0
			for i, m := range c.Msgs {
				select {
				case <-ready[i]:
				case <-e.done:
					return
				}
				if m.Late {
					synctest.Wait() // the Read for message i is blocked, waiting for its first frame
					lc.C.SetReadLimit(m.SetLimit)
				}
				end := frameEnds[msgEnd[i]-1]
				lc.End.Write(stream[prev:end])
				prev = end
			}
			lc.End.Write(stream[prev:])
			if c.Huge == nil || c.Huge.End == "eof" || e.sleep(30*time.Second) {
				lc.End.CloseWrite(nil)
			}
		})
	}
	if late {
		// the feeder ends the stream itself
	} else if c.Huge == nil || c.Huge.End == "eof" {
		lc.End.CloseWrite(nil)
	} else {
		e.Go(func() {
			if e.sleep(30 * time.Second) {
				lc.End.CloseWrite(nil)
			}
		})
	}
	conn := lc.C
	ctx := context.Background()

	// expectations
	cur := int64(32768)
	type exp struct {
		deliver bool
		limit   int64
	}
	exps := make([]exp, len(c.Msgs))
	for i, m := range c.Msgs {
		if m.SetLimit != c08Default {
			cur = m.SetLimit
		}
		L := cur
		if c.API == "netconn" {
			L = -1
		}
		exps[i] = exp{deliver: L < 0 || int64(m.Size) <= L, limit: L}
		if L >= 0 && (int64(m.Size) >= L-1 && int64(m.Size) <= L+1) {
			res.NearLimit = true
		}
		if L >= 0 && int64(m.Size) > L && m.Compress && lc.Agreed.Deflate {
			res.CompOver = true
		}
	}
	res.Huge = c.Huge != nil

	type got struct {
		data []byte // only for APIs where the library returns the whole message
		n    int
		bad  int // offset of the first byte that differs from the expected payload (-1 = none)
		eof  bool
		err  error
	}
	hugePayload := []byte(nil)
	if c.Huge != nil {
		hugePayload = expand(ckPattern, 99, c.Huge.Trickle)
	}
	var netWant []byte
	if c.API == "netconn" {
		for _, p := range payloads {
			netWant = append(netWant, p...)
		}
		netWant = append(netWant, hugePayload...)
	}
	// cmp compares a chunk with the expected bytes at offset off without allocating.
	cmp := func(g *got, chunk, want []byte, off int) {
		if g.bad >= 0 {
			return
		}
		for k := range chunk {
			if off+k >= len(want) || chunk[k] != want[off+k] {
				g.bad = off + k
				return
			}
		}
	}
	var gots []got
	var hugeGot *got
	var nc io.Reader
	buf := make([]byte, c.Buf)
	synctest.Wait()
	var ms0, ms1 runtime.MemStats
	runtime.ReadMemStats(&ms0)
	done := e.Call(func() {
		inForce := int64(32768) // the limit the application has configured (the documented default until it sets one)
		readOne := func(i int, setLimit int64) got {
			g := got{bad: -1}
			want := hugePayload
			if i < len(payloads) {
				want = payloads[i]
			}
			lateSet := i < len(c.Msgs) && c.Msgs[i].Late
			if setLimit != c08Default && !lateSet {
				conn.SetReadLimit(setLimit)
			}
			if setLimit != c08Default {
				inForce = setLimit
			}
			again := i < len(c.Msgs) && c.Msgs[i].Again
			if i < len(ready) {
				close(ready[i])
			}
			switch c.API {
			case "reader":
				_, r, err := conn.Reader(ctx)
				if err != nil {
					g.err = err
					return g
				}
				for {
					n, err := r.Read(buf)
					cmp(&g, buf[:n], want, g.n)
					g.n += n
					if again && n > 0 && err == nil {
						again = false
						conn.SetReadLimit(inForce)
						evid.For("C08").Class("same-limit-set-again-in-the-middle-of-a-message", 1)
					}
					if err == io.EOF {
						g.eof = true
						return g
					}
					if err != nil {
						g.err = err
						return g
					}
				}
			case "read":
				_, b, err := conn.Read(ctx)
				g.data, g.n, g.err = b, len(b), err
				g.eof = err == nil
				cmp(&g, b, want, 0)
			case "wsjson":
				var v json.RawMessage
				err := wsjson.Read(ctx, conn, &v)
				g.data, g.n, g.err = []byte(v), len(v), err
				g.eof = err == nil
				if tw := bytes.TrimSpace(want); len(tw) != len(want) && err == nil && bytes.Equal(v, tw) {
					// a value followed by white space: the decoded value is the document without the padding
					g.data, g.n = want, len(want)
				} else {
					cmp(&g, v, want, 0)
				}
			}
			return g
		}
		if c.WriterOpen {
			if w, err := conn.Writer(ctx, websocket.MessageBinary); err == nil {
				w.Write([]byte("answer,"))
			}
		}
		if c.API == "netconn" {
			nc = websocket.NetConn(ctx, conn, websocket.MessageBinary)
			g := got{bad: -1}
			for {
				n, err := nc.Read(buf)
				cmp(&g, buf[:n], netWant, g.n)
				g.n += n
				if err != nil {
					g.err = err
					break
				}
			}
			gots = append(gots, g)
			return
		}
		for i, m := range c.Msgs {
			g := readOne(i, m.SetLimit)
			gots = append(gots, g)
			if !g.eof {
				return
			}
		}
		if c.Huge != nil {
			g := readOne(len(c.Msgs), c08Default)
			hugeGot = &g
		}
	})
	if !within(done, 600*time.Second) {
		return "reads did not terminate within 600 s (virtual)", res
	}
	runtime.ReadMemStats(&ms1)
	res.AllocDelta = ms1.TotalAlloc - ms0.TotalAlloc
	if ps := e.Panics(); len(ps) > 0 {
		return "library panicked: " + ps[0], res
	}
	conn.CloseNow()
	lc.Peer.waitEOF(30 * time.Second)
	out, _ := lc.Peer.snapshot()
	var closes [][]byte
	for _, f := range out {
		if f.Opcode == ref.OpClose {
			closes = append(closes, f.Payload)
		}
	}
	delivered := 0
	if c.API == "netconn" {
		total := 0
		for _, p := range payloads {
			total += len(p)
		}
		g := gots[0]
		if c.Huge == nil {
			if g.n != total {
				return fmt.Sprintf("NetConn (read limit disabled) delivered %d bytes of %d", g.n, total), res
			}
		} else if g.n < total {
			return fmt.Sprintf("NetConn delivered %d bytes, fewer than the %d of the complete messages", g.n, total), res
		}
		if g.bad >= 0 {
			return fmt.Sprintf("NetConn bytes differ from what was sent at offset %d", g.bad), res
		}
		delivered = g.n
	} else {
		for i, g := range gots {
			ex := exps[i]
			if ex.deliver {
				if !g.eof {
					return fmt.Sprintf("message %d of %d bytes is within the limit %d but its read failed: %v", i, c.Msgs[i].Size, ex.limit, g.err), res
				}
				if g.n != len(payloads[i]) || g.bad >= 0 {
					return fmt.Sprintf("message %d within the limit was delivered wrongly (%d of %d bytes)", i, g.n, len(payloads[i])), res
				}
				delivered += g.n
				continue
			}
			// over the limit
			if g.eof {
				return fmt.Sprintf("message %d of %d bytes exceeds the limit %d but was reported complete (%d bytes)", i, c.Msgs[i].Size, ex.limit, g.n), res
			}
			if g.err == nil {
				return "harness: no error and no EOF", res
			}
			if int64(g.n)-1 > ex.limit {
				return fmt.Sprintf("message %d: %d bytes were handed to the caller, more than limit+1 = %d", i, g.n, ex.limit+1), res
			}
			if g.bad >= 0 {
				return fmt.Sprintf("message %d: bytes handed out before the limit error are not a prefix of the payload (offset %d)", i, g.bad), res
			}
			delivered += g.n
			sawTooBig := false
			for _, cp := range closes {
				if code, _, ok := ref.ParseClose(cp); ok && code == 1009 {
					sawTooBig = true
				}
			}
			if !sawTooBig {
				return fmt.Sprintf("message %d exceeded the limit %d but no Close frame with status 1009 was sent (close payloads: %x)", i, ex.limit, closes), res
			}
			if i != len(gots)-1 {
				return "harness: read continued after failure", res
			}
		}
		if len(gots) < len(c.Msgs) {
			last := gots[len(gots)-1]
			if last.eof {
				return "harness: stopped early", res
			}
		}
		if hugeGot != nil {
			if hugeGot.eof {
				return fmt.Sprintf("a frame declaring %d bytes of which %d arrived was reported as a complete message", c.Huge.Declared, c.Huge.Trickle), res
			}
			L := cur
			if L >= 0 && int64(hugeGot.n)-1 > L {
				return fmt.Sprintf("huge frame: %d bytes handed out, more than limit+1", hugeGot.n), res
			}
			if hugeGot.n > c.Huge.Trickle || hugeGot.bad >= 0 {
				return "huge frame: bytes handed out that never arrived", res
			}
			delivered += hugeGot.n
		}
	}
	res.Delivered = delivered
	// memory envelope
	flat := uint64(6 << 20)
	if late {
		// in message-by-message mode the harness itself copies the stream into the
		// transport inside the measured window
		flat += uint64(6*len(stream)) + 1<<20
	}
	switch c.API {
	case "reader", "netconn":
		if res.AllocDelta > flat {
			return fmt.Sprintf("streaming %d bytes through a %d-byte buffer allocated %d bytes (envelope %d): memory not bounded by what is delivered", delivered, c.Buf, res.AllocDelta, flat), res
		}
	default:
		if res.AllocDelta > uint64(16*delivered)+flat {
			return fmt.Sprintf("%s delivered %d bytes but allocated %d bytes (envelope 16x + %d)", c.API, delivered, res.AllocDelta, flat), res
		}
	}
	return "", res
}

func TestC08(t *testing.T) {
	rec := evid.For("C08")
	rec.Rule = "rapid-generated sequences of 1-3 messages from a foreign sender with the read limit drawn from {default(never set), -1, 0, 1, 2, 125, 126, 4095, 4096, 32768, 65536, 1 MiB, 2^62, 2^63-2, 2^63-1} and optionally changed between messages; in a quarter of the cases the reading goroutine has a message of its own open (Writer, one Write, not closed yet); sizes {L-1, L, L+1, L+2, 2L, 10L, 0, 1} (unlimited: up to 1 MiB); zero/pattern/random/text contents; any fragmentation; uncompressed or compressed by any foreign deflater; optionally a final frame that only DECLARES 2^32..2^63-1 bytes and then trickles 0..40000 bytes; APIs Reader (fixed buffer), Conn.Read, wsjson.Read, NetConn (limit disabled); 9 role/compression settings; transport chunking. Memory: runtime TotalAlloc delta across the receive. Non-trivial: size within +-1 of the limit, or a compressed message over the limit, or a declared length >= 2^32. distinct = hash(setting, api, per-message (limit class, size relation, compression, fragments), huge)."
	checkProp(t, func(rt *rapid.T) {
		c := genC08(rt)
		var msg string
		var res c08Result
		rapid.SyncTest(rt, func(rt *rapid.T) {
			msg, res = runC08(rt, c)
		})
		shape := fmt.Sprintf("%s|%s|%v", c.Mode.Name, c.API, c.Huge != nil)
		classes := []string{"api:" + c.API, "mode:" + c.Mode.Name}
		for _, m := range c.Msgs {
			shape += fmt.Sprintf("|%d/%d/%v/%d", m.SetLimit, m.Size, m.Compress, m.Frags)
			classes = append(classes, fmt.Sprintf("limit:%d", m.SetLimit))
		}
		if res.NearLimit {
			classes = append(classes, "size-within-1-of-limit")
		}
		if res.CompOver {
			classes = append(classes, "compressed-over-limit")
		}
		if res.Huge {
			classes = append(classes, "declared>=2^32")
		}
		if c.WriterOpen {
			classes = append(classes, "reader-has-a-message-of-its-own-open")
		}
		rec.Case(res.NearLimit || res.CompOver || res.Huge, shape, classes...)
		if rec.WantSample() {
			rec.Sample(c.String())
		}
		if msg != "" {
			rt.Fatalf("C08 %v: %s", c, msg)
		}
	})
}

// TestC08Bombs: highly compressible 64 MiB messages (ratio > 1000:1) with the
// limit off are streamed through a fixed buffer within a flat memory envelope,
// and with a limit are cut at limit+1 with status 1009.
func TestC08Bombs(t *testing.T) {
	rec := evid.For("C08")
	size := 64 << 20
	for i, mode := range []string{"server/takeover", "client/takeover", "server/mode-no-ctx", "client/mode-no-ctx"} {
		for _, lim := range []int64{-1, 32768, 1 << 20} {
			var cm c03Mode
			for _, m := range c03Modes {
				if m.Name == mode {
					cm = m
				}
			}
			c := c08Case{Mode: cm, API: "reader", Buf: 32768, Msgs: []c08Msg{{Size: size, Kind: ckZero, Compress: true, Variant: ref.DVSync, Frags: 1 + i, SetLimit: lim}}}
			var msg string
			var res c08Result
			synctest.Test(t, func(t *testing.T) { msg, res = runC08(t, c) })
			rec.Case(true, fmt.Sprintf("bomb|%s|%d", mode, lim), "bomb-64MiB")
			rec.Extra(fmt.Sprintf("bomb_alloc_%s_limit%d", mode, lim), res.AllocDelta)
			if msg != "" {
				failCase(t, "C08", c.String(), "%s", msg)
			}
		}
	}
}

// Regression replay (finding D13): a compressed message of exactly limit+1 bytes.
func TestC08Regress(t *testing.T) {
	for _, mode := range []string{"server/takeover", "client/mode-no-ctx"} {
		for _, v := range []ref.DeflateVariant{ref.DVSync, ref.DVBFinal} {
			lims := []int64{125, c08Default}
			if v == ref.DVSync {
				// limits whose decimal form is long: everything said about the limit (error text, Close reason) must still fit
				lims = append(lims, 10_000_000, 1<<24)
			}
			for _, lim := range lims {
				var cm c03Mode
				for _, m := range c03Modes {
					if m.Name == mode {
						cm = m
					}
				}
				size := int(effLimit(lim)) + 1
				kind := ckText
				if lim > 1<<20 {
					kind = ckZero
				}
				c := c08Case{Mode: cm, API: "reader", Buf: 70000, Msgs: []c08Msg{{Size: size, Kind: kind, Compress: true, Variant: v, Frags: 1, SetLimit: lim}}}
				var msg string
				synctest.Test(t, func(t *testing.T) { msg, _ = runC08(t, c) })
				evid.For("C08").Case(true, fmt.Sprintf("regress|D13|%s|%v|%d", mode, v, lim), "regression-replay")
				if msg != "" {
					failCase(t, "C08", c.String(), "D13: %s", msg)
				}
			}
		}
	}
}

// TestC08MultiStream: a compressed message whose payload is several complete DEFLATE
// streams (each ending in a BFINAL=1 block) one after the other. What a receiver
// makes of the data behind the first final block is its own business (RFC 7692 does
// not define it) - but however it reads the message, the read limit is a limit per
// MESSAGE: the application is never handed more than that.
func TestC08MultiStream(t *testing.T) {
	rec := evid.For("C08")
	one := make([]byte, 20000)
	for i := range one {
		one[i] = byte('a' + i%23)
	}
	var stream bytes.Buffer
	fw, _ := flate.NewWriter(&stream, flate.BestSpeed)
	fw.Write(one)
	fw.Close()
	for _, client := range []bool{false, true} {
		for _, limit := range []int64{c08Default, 50000} {
			for _, frags := range []int{1, 4} {
				for _, k := range []int{2, 4} {
					desc := fmt.Sprintf("multistream|client=%v|limit=%d|frags=%d|streams=%d", client, limit, frags, k)
					var msg string
					synctest.Test(t, func(t *testing.T) {
						e := newEnv(t)
						defer e.Teardown()
						lc, err := e.open(connSpec{Client: client, Mode: websocket.CompressionContextTakeover, Ext: "permessage-deflate"})
						if err != nil {
							msg = "handshake: " + err.Error()
							return
						}
						lc.Peer.start(e)
						if limit != c08Default {
							lc.C.SetReadLimit(limit)
						}
						raw := bytes.Repeat(stream.Bytes(), k)
						per := len(raw)/frags + 1
						for j, off := 0, 0; j < frags; j++ {
							end := min(off+per, len(raw))
							if j == frags-1 {
								end = len(raw)
							}
							f := ref.Frame{Fin: j == frags-1, Payload: raw[off:end]}
							if j == 0 {
								f.Opcode, f.Rsv1 = ref.OpBinary, true
							}
							lc.Peer.send(f)
							off = end
						}
						delivered := 0
						var rerr error
						d := e.Call(func() {
							_, r, err := lc.C.Reader(context.Background())
							if err != nil {
								rerr = err
								return
							}
							buf := make([]byte, 4096)
							for {
								n, err := r.Read(buf)
								delivered += n
								if err != nil {
									rerr = err
									return
								}
							}
						})
						if !within(d, 60*time.Second) {
							msg = "read did not return"
							return
						}
						if lim := effLimit(limit); int64(delivered) > lim+1 {
							msg = fmt.Sprintf("a message of %d DEFLATE streams (%d bytes each when inflated) handed %d bytes to the application under a read limit of %d (err=%v)", k, len(one), delivered, lim, rerr)
						}
					})
					rec.Case(true, desc, "several-deflate-streams-in-one-message")
					if msg != "" {
						failCase(t, "C08", desc, "%s", msg)
					}
				}
			}
		}
	}
}

// TestC08AfterLimit: what the application does after a "read limited" error is to read
// again (a retry loop, the next iteration of its read loop). The message that exceeded the
// limit was not read to its end, so its remaining bytes are still in the stream: a receiver
// that carries on takes them for frames. The sender chooses those bytes - here they spell a
// complete text frame - so a message nobody sent would be delivered (found as defect D21).
// Enumerated: role x limit x fragmentation x read API; the tail of the oversize message is
// valid frames for the receiving role. After the failed read nothing may be delivered.
func TestC08AfterLimit(t *testing.T) {
	rec := evid.For("C08")
	type alCase struct {
		Client bool
		Limit  int64
		Frags  int
		API    string
	}
	for _, client := range []bool{true, false} {
		for _, limit := range []int64{c08Default, 0, 1, 125, 126, 4096, 65536} {
			for _, frags := range []int{1, 3} {
				for _, api := range []string{"read", "reader-1", "reader-big", "wsjson"} {
					c := alCase{client, limit, frags, api}
					var msg string
					synctest.Test(t, func(t *testing.T) {
						e := newEnv(t)
						defer e.Teardown()
						lc, err := e.open(connSpec{Client: client})
						if err != nil {
							msg = "handshake: " + err.Error()
							return
						}
						lc.Peer.start(e)
						if limit != c08Default {
							lc.C.SetReadLimit(limit)
						}
						L := int(effLimit(limit))
						// the frames a receiver finds when it reads on behind the limit: for a server they are masked with a zero key
						hid := ref.Frame{Fin: true, Opcode: ref.OpText, Payload: []byte(`"hidden"`), Masked: !client}.Encode()
						var tail []byte
						for i := 0; i < 4; i++ {
							tail = append(tail, hid...)
						}
						// L+1 bytes are handed out at most; the reader may have taken up to a buffer more off the wire
						body := append(bytes.Repeat([]byte{' '}, L+1), tail...)
						per := len(body)/frags + 1
						for j, off := 0, 0; j < frags; j++ {
							end := min(off+per, len(body))
							if j == frags-1 {
								end = len(body)
							}
							f := ref.Frame{Fin: j == frags-1, Payload: body[off:end], Masked: !client} // zero key: the wire shows the bytes as they are
							if j == 0 {
								f.Opcode = ref.OpText
							}
							lc.Peer.sendRaw(f.Encode())
							off = end
						}
						lc.Peer.send(ref.Frame{Fin: true, Opcode: ref.OpText, Payload: []byte(`"a later message"`)})
						var first error
						var after []string
						d := e.Call(func() {
							ctx := context.Background()
							readOne := func() (string, error) {
								switch api {
								case "read":
									_, b, err := lc.C.Read(ctx)
									return string(b), err
								case "wsjson":
									var v any
									err := wsjson.Read(ctx, lc.C, &v)
									return fmt.Sprint(v), err
								}
								_, r, err := lc.C.Reader(ctx)
								if err != nil {
									return "", err
								}
								buf := make([]byte, 1)
								if api == "reader-big" {
									buf = make([]byte, 1<<17)
								}
								var all []byte
								for {
									n, err := r.Read(buf)
									all = append(all, buf[:n]...)
									if err == io.EOF {
										return string(all), nil
									}
									if err != nil {
										return string(all), err
									}
								}
							}
							_, first = readOne()
							for i := 0; i < 3; i++ {
								rctx, cancel := context.WithTimeout(ctx, 20*time.Second)
								ctx = rctx
								got, err := readOne()
								cancel()
								ctx = context.Background()
								if err == nil {
									after = append(after, got)
								}
							}
						})
						if !within(d, 200*time.Second) {
							msg = "reads did not return"
							return
						}
						if first == nil {
							msg = fmt.Sprintf("a message of %d bytes was reported complete under a read limit of %d", len(body), L)
							return
						}
						if len(after) > 0 {
							msg = fmt.Sprintf("the read of an oversize message failed (%v) and a later read delivered %q: the unread rest of the oversize message was taken for frames (or reading simply went on after the connection was to be closed with status 1009)", first, after)
						}
					})
					rec.Case(true, fmt.Sprintf("afterlimit|%+v", c), "read-again-after-the-limit-error")
					if msg != "" {
						failCase(t, "C08", c, "%s", msg)
					}
				}
			}
		}
	}
}

// TestC08NetConnStream: the NetConn adapter switches the read limit off, so the only bound on
// memory is that it STREAMS: reading a 16 MiB message (highly compressible, a few KiB on the
// wire, or uncompressed) through a 4 KiB buffer must not cost memory in proportion to the
// message (an adapter that collects each message before serving it allocates two to three times
// its size). Same envelope as the streaming Reader cases of runC08.
func TestC08NetConnStream(t *testing.T) {
	rec := evid.For("C08")
	for _, mode := range []string{"server/takeover", "client/mode-no-ctx", "server/off"} {
		var cm c03Mode
		for _, m := range c03Modes {
			if m.Name == mode {
				cm = m
			}
		}
		for _, frags := range []int{1, 3} {
			c := c08Case{Mode: cm, API: "netconn", Buf: 4096, Msgs: []c08Msg{{Size: 16 << 20, Kind: ckZero, Compress: cm.Mode != websocket.CompressionDisabled, Variant: ref.DVSync, Frags: frags, SetLimit: c08Default}}}
			var msg string
			var res c08Result
			synctest.Test(t, func(t *testing.T) { msg, res = runC08(t, c) })
			rec.Case(true, fmt.Sprintf("netconn-stream|%s|%d", mode, frags), "netconn-16MiB-through-4KiB-buffer")
			rec.Extra(fmt.Sprintf("netconn_stream_alloc_%s_frags%d", mode, frags), res.AllocDelta)
			if msg != "" {
				failCase(t, "C08", c.String(), "%s", msg)
			}
		}
	}
}
