package props

import (
	"context"
	"fmt"
	"strings"
	"testing"
	"testing/synctest"
	"time"

	"nhooyr.io/websocket"
	"pgregory.net/rapid"
	"verif/harness/evid"
	"verif/harness/ref"
)

// C09 — Close, CloseNow and blocked calls end in bounded time whatever the peer does.

type c09Case struct {
	Client  bool   `json:"client"`
	Deflate bool   `json:"deflate"`
	State   string `json:"state"`           // idle | reader-blocked | half-read | closeread | writer-blocked | writer-open | ping-pending | write-fails | stream-write-fails
	Adv     string `json:"adv"`             // see c09Advs
	Frame   string `json:"frame,omitempty"` // for stall: data7 | data16 | data64 | ping | close | cont
	K       int    `json:"k,omitempty"`     // bytes of the frame sent before stalling
	// Front: a complete frame (an unsolicited Pong) travels in the same segment in front of the piece of
	// the stalled frame: when the library turns to the stalled frame, its first bytes are already buffered
	Front bool          `json:"front,omitempty"`
	Delay time.Duration `json:"delay,omitempty"`
	Op    string        `json:"op"`   // Close | CloseNow | closeread-data | Close-badcode | Close-longreason
	When  string        `json:"when"` // adversary acts "before" or "after" the local close call starts
	// AfterOp "write": once the close call is under way (and whatever it waits for is being waited
	// for), another goroutine calls Write with a context that never ends
	AfterOp string `json:"after_op,omitempty"`
}

var c09States = []string{"idle", "reader-blocked", "half-read", "closeread", "writer-blocked", "writer-open", "ping-pending"}
var c09Advs = []string{"silent-reading", "silent-not-reading", "stall", "flood-frames", "flood-fragments", "flood-payload", "half-close", "echo-delay", "violation", "hangup", "zero-window"}

// states that only make sense once the adversary has acted: a write that then fails in the transport
var c09LateStates = []string{"write-fails", "stream-write-fails"}

// c09ClosedStates: the connection has already been closed by the peer's Close frame (taken in by a
// Read) when the application calls CloseRead - and then Close or CloseNow.
var c09ClosedStates = []string{"closeread-after-peer-close"}

// c09PingStates: a Ping whose frame is stuck in the transport (the peer took one byte of it) while the peer
// already sends the Pong for it - twice (Ping payloads are a counter: the first one is "1").
var c09PingStates = []string{"ping-write-blocked"}
var c09BadCloseOps = []string{"Close-badcode", "Close-longreason"}
var c09StallFrames = []string{"data7", "data16", "data64", "ping", "close", "cont"}

func c09StallBytes(frame string, libIsClient bool) []byte {
	var f ref.Frame
	switch frame {
	case "data7":
		f = ref.Frame{Fin: true, Opcode: ref.OpBinary, Payload: expand(ckRandom, 1, 10)}
	case "data16":
		f = ref.Frame{Fin: true, Opcode: ref.OpBinary, Payload: expand(ckRandom, 2, 300)}
	case "data64":
		f = ref.Frame{Fin: true, Opcode: ref.OpText, Payload: expand(ckText, 3, 66000)}
	case "ping":
		f = ref.Frame{Fin: true, Opcode: ref.OpPing, Payload: []byte("stalled ping")}
	case "close":
		f = ref.Frame{Fin: true, Opcode: ref.OpClose, Payload: ref.ClosePayload(1000, "stalled close")}
	case "cont":
		f = ref.Frame{Fin: false, Opcode: ref.OpBinary, Payload: expand(ckRandom, 4, 20)}
	}
	_, b, _ := finishMasking([]ref.Frame{f}, libIsClient)
	return b
}

type c09Result struct {
	Withheld bool
	CloseDur time.Duration
}

func runC09(t fataler, c c09Case) (string, c09Result) {
	var res c09Result
	e := newEnv(t)
	defer e.Teardown()
	spec := connSpec{Client: c.Client}
	if c.Deflate {
		spec.Mode, spec.Ext = websocket.CompressionContextTakeover, "permessage-deflate"
	}
	lc, err := e.open(spec)
	if err != nil {
		return "handshake: " + err.Error(), res
	}
	p := lc.Peer
	conn := lc.C
	ctx := context.Background()
	echo := func(delay time.Duration) {
		p.onFrame = func(f ref.Frame) {
			if f.Opcode == ref.OpClose {
				pl := f.Payload
				e.Go(func() {
					if e.sleep(delay) {
						p.send(ref.Frame{Fin: true, Opcode: ref.OpClose, Payload: pl})
					}
				})
			}
		}
	}
	reading := true
	switch c.Adv {
	case "echo-delay", "slow-take-slow-echo":
		echo(c.Delay)
	case "silent-not-reading":
		reading = false
	}
	if c.State == "writer-blocked" {
		reading = false
	}
	if reading {
		p.start(e)
	}

	// blocked calls we expect to return once the transport is closed
	type blocked struct {
		name string
		done <-chan struct{}
	}
	var blockedCalls []blocked
	var crCtx context.Context

	// --- local state ---
	switch c.State {
	case "reader-blocked":
		blockedCalls = append(blockedCalls, blocked{"Reader", e.Call(func() {
			for {
				if _, _, err := conn.Read(ctx); err != nil {
					return
				}
			}
		})})
	case "half-read":
		p.send(ref.Frame{Fin: false, Opcode: ref.OpBinary, Payload: expand(ckRandom, 5, 100)})
		d := e.Call(func() {
			_, r, err := conn.Reader(ctx)
			if err == nil {
				r.Read(make([]byte, 10))
			}
		})
		if !within(d, 10*time.Second) {
			return "setup: half read did not return", res
		}
	case "closeread":
		crCtx = conn.CloseRead(ctx)
	case "writer-blocked":
		lc.End.SetInBudget(0)
		blockedCalls = append(blockedCalls, blocked{"Write", e.Call(func() {
			conn.Write(ctx, websocket.MessageBinary, expand(ckRandom, 6, 9000))
		})})
	case "writer-open":
		d := e.Call(func() {
			w, err := conn.Writer(ctx, websocket.MessageText)
			if err == nil {
				w.Write([]byte("first chunk of an unfinished message"))
			}
		})
		if !within(d, 10*time.Second) {
			return "setup: Writer did not return", res
		}
	case "ping-write-blocked":
		lc.End.SetInBudget(1)
		blockedCalls = append(blockedCalls, blocked{"Reader", e.Call(func() {
			for {
				if _, _, err := conn.Read(ctx); err != nil {
					return
				}
			}
		})})
		blockedCalls = append(blockedCalls, blocked{"Ping", e.Call(func() { conn.Ping(ctx) })})
		synctest.Wait()
		p.send(ref.Frame{Fin: true, Opcode: ref.OpPong, Payload: []byte("1")})
		p.send(ref.Frame{Fin: true, Opcode: ref.OpPong, Payload: []byte("1")})
	case "ping-pending":
		// a reader is needed for Ping; the peer never answers
		blockedCalls = append(blockedCalls, blocked{"Reader", e.Call(func() {
			for {
				if _, _, err := conn.Read(ctx); err != nil {
					return
				}
			}
		})})
		blockedCalls = append(blockedCalls, blocked{"Ping", e.Call(func() { conn.Ping(ctx) })})
	}
	if c.Op == "closeread-data" && crCtx == nil {
		crCtx = conn.CloseRead(ctx)
	}
	synctest.Wait()

	// --- adversary ---
	adversary := func() {
		switch c.Adv {
		case "stall":
			b := c09StallBytes(c.Frame, c.Client)
			k := c.K
			if k > len(b) {
				k = len(b)
			}
			if c.Front {
				_, fb, _ := finishMasking([]ref.Frame{{Fin: true, Opcode: ref.OpPong, Payload: []byte("ahead")}}, c.Client)
				p.sendRaw(append(append([]byte(nil), fb...), b[:k]...))
			} else {
				p.sendRaw(b[:k])
			}
			res.Withheld = k < len(b)
		case "flood-frames":
			e.Go(func() {
				for i := 0; ; i++ {
					if p.send(ref.Frame{Fin: true, Opcode: ref.OpBinary, Payload: expand(ckPattern, uint64(i), 200)}) != nil {
						return
					}
					if !e.sleep(c.Delay) {
						return
					}
				}
			})
		case "flood-fragments":
			// one message that never ends: non-final fragments for ever
			e.Go(func() {
				for i := 0; ; i++ {
					op := byte(ref.OpCont)
					if i == 0 {
						op = ref.OpBinary
					}
					if p.send(ref.Frame{Fin: false, Opcode: op, Payload: expand(ckPattern, uint64(i), 200)}) != nil {
						return
					}
					if !e.sleep(c.Delay) {
						return
					}
				}
			})
		case "flood-payload":
			huge := uint64(1) << 40
			hdr := ref.Frame{Fin: true, Opcode: ref.OpBinary, DeclaredLen: &huge}
			_, b, _ := finishMasking([]ref.Frame{hdr}, c.Client)
			p.sendRaw(b)
			e.Go(func() {
				chunk := make([]byte, 1000)
				for {
					if p.sendRaw(chunk) != nil {
						return
					}
					if !e.sleep(c.Delay) {
						return
					}
				}
			})
		case "half-close":
			lc.End.CloseWrite(nil)
		case "window-for-one-write":
			// (meaningful with a writer blocked on a zero window) the peer takes what that Write
			// still has to send and a few bytes more, then nothing again
			lc.End.AddInBudget(9010)
		case "zero-window":
			lc.End.SetInBudget(0) // the peer is there but takes nothing: every write of the library blocks
		case "slow-take-slow-echo":
			// the peer takes nothing for Delay (so the Close frame gets out only then), answers the Close
			// frame another Delay later - both inside the 5 s each step is allowed - and keeps its transport open
			lc.End.SetInBudget(0)
			e.Go(func() {
				if e.sleep(c.Delay) {
					lc.End.SetInBudget(-1)
				}
			})
		case "hangup":
			lc.End.Close() // the peer is gone: reads end, writes fail in the transport
		case "violation":
			p.send(ref.Frame{Fin: true, Opcode: 0x7, Payload: []byte("reserved opcode")})
		}
	}
	switch c.Adv {
	case "silent-reading", "silent-not-reading", "echo-delay", "slow-take-slow-echo":
		res.Withheld = true
	case "flood-frames", "flood-fragments", "flood-payload", "half-close", "violation", "hangup", "zero-window", "window-for-one-write":
		res.Withheld = true
	}
	if c.When == "before" {
		adversary()
		synctest.Wait()
	}
	switch c.State {
	case "write-fails":
		blockedCalls = append(blockedCalls, blocked{"Write", e.Call(func() {
			conn.Write(ctx, websocket.MessageBinary, expand(ckRandom, 6, 9000))
		})})
		synctest.Wait()
	case "closeread-after-peer-close":
		p.send(ref.Frame{Fin: true, Opcode: ref.OpClose, Payload: ref.ClosePayload(1000, "bye")})
		var rerr error
		d := e.Call(func() { _, _, rerr = conn.Read(ctx) })
		if !within(d, 10*time.Second) || rerr == nil {
			return fmt.Sprintf("setup: the Read that takes in the peer's Close frame did not fail (%v)", rerr), res
		}
		crCtx = conn.CloseRead(ctx)
		synctest.Wait()
	case "stream-write-fails":
		blockedCalls = append(blockedCalls, blocked{"Writer/Write/Close", e.Call(func() {
			w, err := conn.Writer(ctx, websocket.MessageText)
			if err != nil {
				return
			}
			w.Write(expand(ckText, 8, 5000))
			w.Write(expand(ckText, 9, 5000))
			w.Close()
		})})
		synctest.Wait()
	}

	// --- the operation ---
	start := time.Now()
	var opDone <-chan struct{}
	switch c.Op {
	case "Close":
		opDone = e.Call(func() { conn.Close(websocket.StatusNormalClosure, "bounded?") })
	case "CloseNow":
		opDone = e.Call(func() { conn.CloseNow() })
	case "Close-badcode":
		// an argument that cannot be put on the wire is an error, but the call still closes the connection
		opDone = e.Call(func() { conn.Close(websocket.StatusCode(1006), "not sendable") })
	case "Close-longreason":
		opDone = e.Call(func() { conn.Close(websocket.StatusInternalError, string(expand(ckText, 10, 124))) })
	case "closeread-data":
		// the peer sends a data message: CloseRead must close the connection itself
		p.send(ref.Frame{Fin: true, Opcode: ref.OpText, Payload: []byte("unexpected data")})
		ch := make(chan struct{})
		close(ch)
		opDone = ch
	}
	if c.When == "after" {
		synctest.Wait()
		adversary()
	}
	if c.AfterOp == "write" {
		synctest.Wait()
		blockedCalls = append(blockedCalls, blocked{"Write (started while " + c.Op + " was under way)", e.Call(func() {
			conn.Write(ctx, websocket.MessageText, []byte("written while the connection is being closed"))
		})})
	}
	bound := 11 * time.Second
	if c.Op == "CloseNow" {
		bound = time.Second
	}
	if c.Op != "closeread-data" {
		if !within(opDone, bound) {
			return fmt.Sprintf("%s did not return within %v (virtual) [state=%s adv=%s]", c.Op, bound, c.State, c.Adv), res
		}
		res.CloseDur = time.Since(start)
	} else {
		// wait (bounded) for the library to close the transport
		deadline := 12 * time.Second
		for waited := time.Duration(0); ; waited += 100 * time.Millisecond {
			if cl, _ := lc.Lib.Closed(); cl {
				break
			}
			if waited >= deadline {
				return "CloseRead received a data message but the connection was not closed within 12 s", res
			}
			e.sleep(100 * time.Millisecond)
		}
	}
	closed, closedAt := lc.Lib.Closed()
	if !closed {
		return fmt.Sprintf("%s returned but the transport was not closed", c.Op), res
	}
	// every blocked call returns within 1 s of the transport being closed
	for _, b := range blockedCalls {
		remaining := time.Second - time.Since(closedAt)
		if remaining < time.Millisecond {
			remaining = time.Millisecond
		}
		if !within(b.done, remaining) {
			return fmt.Sprintf("%s still blocked 1 s after the connection was closed", b.name), res
		}
	}
	if crCtx != nil {
		remaining := time.Second - time.Since(closedAt)
		if remaining < time.Millisecond {
			remaining = time.Millisecond
		}
		if !within(crCtx.Done(), remaining) {
			// measure how late it really is, for the report
			late := "more than 60 s"
			if within(crCtx.Done(), 60*time.Second) {
				late = fmt.Sprint(time.Since(closedAt))
			}
			return fmt.Sprintf("the context returned by CloseRead was still not cancelled 1 s after the connection closed (cancelled after %s)", late), res
		}
	}
	if ps := e.Panics(); len(ps) > 0 {
		return "library panicked: " + ps[0], res
	}
	return "", res
}

func c09Key(c c09Case) string {
	kc := "k0"
	switch {
	case c.K == 1:
		kc = "k1"
	case c.K == 2:
		kc = "k2"
	case c.K > 2 && c.K <= 14:
		kc = "k-header"
	case c.K > 14:
		kc = "k-payload"
	}
	return fmt.Sprintf("%v|%v|%s|%s|%s|%s|%v|%s|%s|%s", c.Client, c.Deflate, c.State, c.Adv, c.Frame, kc, c.Delay, c.Op, c.When, c.AfterOp)
}

func TestC09(t *testing.T) {
	rec := evid.For("C09")
	rec.Rule = "enumerated matrix in virtual time: local state {idle, reader blocked, message half read, CloseRead active, writer blocked on a zero window, Writer open mid-message, Ping pending} [+ a Write / a streamed message started after the adversary acted] [+ a Ping whose frame is stuck in the transport while the peer already sends its Pong twice] [+ CloseRead called after the peer's Close frame has already closed the connection] [+ a Write with an endless context arriving while the close call is under way] [+ a peer that takes just what a blocked Write still has to send and then nothing again] x scripted adversary {gone (transport closed: writes fail), present but taking nothing (zero window), silent but reading, never reading, stall after k bytes of a frame for EVERY k (7/16/64-bit data frames, Ping, Close, non-final fragment; also with a complete Pong in the same segment in front of the piece), endless data frames, one endless payload, half-close, echo after 0/1/4.9/5.1/20 s, taking the Close frame only after 1/4/4.9 s and echoing it as long after that again, protocol violation} acting before or after the call x role x {Close, CloseNow, CloseRead + incoming data message, Close with an unsendable code, Close with a 124-byte reason}; then rapid-drawn combinations. Bounds asserted on the fake clock: Close <= 11 s, CloseNow <= 1 s, blocked calls and the CloseRead context <= 1 s after the library closed the transport. Non-trivial: the adversary withheld something the library was waiting for. distinct = (role, state, adversary, frame kind, k class, delay, op, timing)."
	var rc c09Case
	if replayCase(t, &rc) {
		var msg string
		synctest.Test(t, func(t *testing.T) { msg, _ = runC09(t, rc) })
		if msg != "" {
			failCase(t, "C09", rc, "%s", msg)
		}
		return
	}
	shard, shards := evid.EnvInt("VERIF_SHARD", 0), evid.EnvInt("VERIF_SHARDS", 1)
	idx := 0
	one := func(c c09Case) {
		idx++
		if idx%shards != shard {
			return
		}
		var msg string
		var res c09Result
		stop := watchDeadlock(t, "C09", c)
		synctest.Test(t, func(t *testing.T) { msg, res = runC09(t, c) })
		stop()
		rec.Case(res.Withheld, c09Key(c), "state:"+c.State, "adv:"+c.Adv, "op:"+c.Op)
		if idx%97 == 0 {
			rec.Sample(c)
		}
		if msg != "" {
			failCase(t, "C09", c, "%s", msg)
		}
	}
	for _, client := range []bool{false, true} {
		for _, st := range c09States {
			for _, op := range []string{"Close", "CloseNow", "closeread-data"} {
				if op == "closeread-data" && (st == "reader-blocked" || st == "half-read" || st == "ping-pending") {
					continue // CloseRead cannot be combined with another reader
				}
				for _, when := range []string{"before", "after"} {
					for _, adv := range c09Advs {
						if op == "closeread-data" && when == "before" && (adv == "stall" || adv == "flood-payload" || adv == "violation" || adv == "half-close" || adv == "flood-frames" || adv == "flood-fragments") {
							continue // the data message could not be delivered behind it
						}
						switch adv {
						case "stall":
							for _, fr := range c09StallFrames {
								n := len(c09StallBytes(fr, client))
								ks := []int{}
								for k := 1; k <= n && k <= 16; k++ {
									ks = append(ks, k)
								}
								for _, k := range []int{n / 2, n - 1} {
									if k > 16 {
										ks = append(ks, k)
									}
								}
								for _, k := range ks {
									one(c09Case{Client: client, State: st, Adv: adv, Frame: fr, K: k, Op: op, When: when})
									if k <= 3 || k == 5 || k == n-1 {
										one(c09Case{Client: client, State: st, Adv: adv, Frame: fr, K: k, Front: true, Op: op, When: when})
									}
								}
							}
						case "echo-delay":
							for _, d := range []time.Duration{0, time.Second, 4900 * time.Millisecond, 5100 * time.Millisecond, 20 * time.Second} {
								one(c09Case{Client: client, State: st, Adv: adv, Delay: d, Op: op, When: when})
							}
						case "flood-frames", "flood-payload", "flood-fragments":
							for _, d := range []time.Duration{time.Millisecond, 300 * time.Millisecond, 4 * time.Second} {
								one(c09Case{Client: client, State: st, Adv: adv, Delay: d, Op: op, When: when})
							}
						default:
							one(c09Case{Client: client, State: st, Adv: adv, Op: op, When: when})
						}
					}
				}
			}
		}
	}
	for _, client := range []bool{false, true} {
		for _, st := range []string{"idle", "reader-blocked", "closeread"} {
			for _, d := range []time.Duration{time.Second, 4 * time.Second, 4900 * time.Millisecond} {
				one(c09Case{Client: client, State: st, Adv: "slow-take-slow-echo", Delay: d, Op: "Close", When: "before"})
			}
		}
	}
	for _, client := range []bool{false, true} {
		for _, st := range c09LateStates {
			for _, op := range []string{"Close", "CloseNow"} {
				for _, adv := range []string{"hangup", "half-close", "silent-not-reading"} {
					one(c09Case{Client: client, State: st, Adv: adv, Op: op, When: "before"})
					one(c09Case{Client: client, Deflate: true, State: st, Adv: adv, Op: op, When: "before"})
				}
			}
		}
		for _, st := range c09ClosedStates {
			for _, op := range []string{"Close", "CloseNow"} {
				one(c09Case{Client: client, State: st, Adv: "silent-reading", Op: op, When: "before"})
				one(c09Case{Client: client, State: st, Adv: "hangup", Op: op, When: "after"})
			}
		}
		for _, st := range []string{"idle", "reader-blocked", "closeread", "writer-open", "writer-blocked"} {
			for _, adv := range []string{"zero-window", "silent-not-reading", "silent-reading", "window-for-one-write"} {
				for _, when := range []string{"before", "after"} {
					one(c09Case{Client: client, State: st, Adv: adv, Op: "Close", When: when, AfterOp: "write"})
					one(c09Case{Client: client, Deflate: true, State: st, Adv: adv, Op: "CloseNow", When: when, AfterOp: "write"})
				}
			}
			one(c09Case{Client: client, State: st, Adv: "window-for-one-write", Op: "Close", When: "after"})
		}
		for _, st := range c09PingStates {
			for _, op := range []string{"Close", "CloseNow"} {
				for _, adv := range []string{"silent-reading", "zero-window", "hangup"} {
					for _, when := range []string{"before", "after"} {
						one(c09Case{Client: client, State: st, Adv: adv, Op: op, When: when})
					}
				}
			}
		}
		for _, st := range c09States {
			for _, op := range c09BadCloseOps {
				for _, when := range []string{"before", "after"} {
					one(c09Case{Client: client, State: st, Adv: "silent-reading", Op: op, When: when})
					one(c09Case{Client: client, State: st, Adv: "hangup", Op: op, When: when})
					one(c09Case{Client: client, State: st, Adv: "stall", Frame: "data7", K: 9, Op: op, When: when})
				}
			}
		}
	}
	rec.Exhaustive("state x adversary (every stall offset k of short frames) x role x operation x timing", true)
}

// TestC09Mixed: rapid-drawn points of the same space, with compression and
// arbitrary stall offsets inside long frames.
func TestC09Mixed(t *testing.T) {
	rec := evid.For("C09")
	checkProp(t, func(rt *rapid.T) {
		c := c09Case{
			Client:  rapid.Bool().Draw(rt, "client"),
			Deflate: rapid.Bool().Draw(rt, "deflate"),
			State:   rapid.SampledFrom(append(append(append(append([]string(nil), c09States...), c09LateStates...), c09PingStates...), c09ClosedStates...)).Draw(rt, "state"),
			Adv:     rapid.SampledFrom(append([]string{"window-for-one-write"}, c09Advs...)).Draw(rt, "adv"),
			Op:      rapid.SampledFrom([]string{"Close", "Close", "Close", "CloseNow", "CloseNow", "closeread-data", "Close-badcode", "Close-longreason"}).Draw(rt, "op"),
			When:    rapid.SampledFrom([]string{"before", "after"}).Draw(rt, "when"),
		}
		if c.Op != "closeread-data" && rapid.IntRange(0, 3).Draw(rt, "writeArrivesDuringClose") == 0 {
			c.AfterOp = "write"
		}
		if c.State == "closeread-after-peer-close" {
			if c.Op == "closeread-data" {
				c.Op = "CloseNow"
			}
			if c.Adv != "silent-reading" && c.Adv != "echo-delay" {
				c.Adv, c.When = "hangup", "after"
			}
		}
		if c.State == "write-fails" || c.State == "stream-write-fails" {
			c.When = "before"
			if c.Op == "closeread-data" {
				c.Op = "Close"
			}
		}
		if c.Op == "closeread-data" {
			if c.State == "reader-blocked" || c.State == "half-read" || c.State == "ping-pending" {
				c.State = "closeread"
			}
			if c.When == "before" && c.Adv != "silent-reading" && c.Adv != "silent-not-reading" && c.Adv != "echo-delay" {
				c.When = "after"
			}
		}
		switch c.Adv {
		case "stall":
			c.Frame = rapid.SampledFrom(c09StallFrames).Draw(rt, "frame")
			c.K = rapid.IntRange(1, len(c09StallBytes(c.Frame, c.Client))).Draw(rt, "k")
			c.Front = rapid.Bool().Draw(rt, "frameInFront")
		case "echo-delay":
			c.Delay = time.Duration(rapid.IntRange(0, 21000).Draw(rt, "delayMs")) * time.Millisecond
		case "flood-frames", "flood-payload", "flood-fragments":
			c.Delay = time.Duration(rapid.IntRange(1, 4900).Draw(rt, "gapMs")) * time.Millisecond
		}
		var msg string
		var res c09Result
		stop := watchDeadlock(t, "C09", c)
		rapid.SyncTest(rt, func(rt *rapid.T) { msg, res = runC09(rt, c) })
		stop()
		rec.Case(res.Withheld, "mixed|"+c09Key(c), "state:"+c.State, "adv:"+c.Adv, "op:"+c.Op, "mixed")
		if msg != "" {
			rt.Fatalf("C09 %+v: %s", c, msg)
		}
	})
}

// Regression replays for the defects this check found (D5, D6, D15).
func TestC09Regress(t *testing.T) {
	cases := []struct {
		name string
		c    c09Case
	}{
		{"D5-stall-in-payload-then-Close", c09Case{State: "idle", Adv: "stall", Frame: "data7", K: 9, Op: "Close", When: "before"}},
		{"D5-stall-in-payload-after-Close", c09Case{Client: true, State: "idle", Adv: "stall", Frame: "data16", K: 20, Op: "Close", When: "after"}},
		{"D5-half-read-then-stall", c09Case{State: "half-read", Adv: "silent-reading", Op: "Close", When: "before"}},
		{"D6-closeread-data-message", c09Case{State: "idle", Adv: "silent-reading", Op: "closeread-data", When: "before"}},
		{"D15-CloseNow-during-closeread-handshake", c09Case{State: "closeread", Adv: "stall", Frame: "data7", K: 6, Op: "CloseNow", When: "before"}},
	}
	for _, rc := range cases {
		var msg string
		synctest.Test(t, func(t *testing.T) { msg, _ = runC09(t, rc.c) })
		evid.For("C09").Case(true, "regress|"+rc.name, "regression-replay")
		if msg != "" {
			failCase(t, "C09", rc.c, "%s: %s", rc.name, msg)
		}
	}
}

// TestC09NetConnClose: the same bound for the net.Conn adapter's Close, which is a Close of the
// connection: with one of the adapter's own calls in flight - a Write the peer does not take, a
// Read nothing arrives for, or both - nc.Close returns within Close's bound (about 10 s), and
// the calls in flight return once it has. Enumerated: role x what is in flight x what the peer does
// with the Close frame.
func TestC09NetConnClose(t *testing.T) {
	rec := evid.For("C09")
	for _, client := range []bool{false, true} {
		for _, inflight := range []string{"write", "read", "write+read", "none"} {
			for _, peer := range []string{"takes-nothing", "echoes"} {
				desc := fmt.Sprintf("netconnclose|client=%v|%s|%s", client, inflight, peer)
				var msg string
				synctest.Test(t, func(t *testing.T) {
					e := newEnv(t)
					defer e.Teardown()
					lc, err := e.open(connSpec{Client: client})
					if err != nil {
						msg = "handshake: " + err.Error()
						return
					}
					p := lc.Peer
					p.onFrame = func(f ref.Frame) {
						if f.Opcode == ref.OpClose && peer == "echoes" {
							p.send(ref.Frame{Fin: true, Opcode: ref.OpClose, Payload: f.Payload})
						}
					}
					p.start(e)
					nc := websocket.NetConn(context.Background(), lc.C, websocket.MessageBinary)
					var calls []<-chan struct{}
					if strings.Contains(inflight, "write") {
						lc.End.SetInBudget(3)
						calls = append(calls, e.Call(func() { nc.Write(make([]byte, 9000)) }))
					}
					if strings.Contains(inflight, "read") {
						calls = append(calls, e.Call(func() { nc.Read(make([]byte, 16)) }))
					}
					synctest.Wait()
					if peer == "echoes" {
						lc.End.SetInBudget(-1)
					}
					start := time.Now()
					cd := e.Call(func() { nc.Close() })
					if !within(cd, 11*time.Second) {
						msg = fmt.Sprintf("NetConn's Close did not return within 11 s (calls in flight: %s; the peer %s)", inflight, peer)
						return
					}
					for _, d := range calls {
						if !within(d, 2*time.Second) {
							msg = fmt.Sprintf("a NetConn call that was in flight is still blocked 2 s after Close returned (Close took %v)", time.Since(start))
							return
						}
					}
				})
				rec.Case(true, desc, "netconn-close-with-its-own-calls-in-flight")
				if msg != "" {
					failCase(t, "C09", desc, "%s", msg)
				}
			}
		}
	}
}
