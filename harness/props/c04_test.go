package props

import (
	"bytes"
	"context"
	"encoding/json"
	"fmt"
	"io"
	"testing"
	"time"

	"nhooyr.io/websocket"
	"nhooyr.io/websocket/wsjson"
	"pgregory.net/rapid"
	"verif/harness/evid"
	"verif/harness/memconn"
	"verif/harness/ref"
)

// C04 — no silent truncation: a message ends cleanly only if it was received completely.

var c04Kinds = []struct {
	Name string
	Err  error
}{
	{"EOF", nil},
	{"ErrUnexpectedEOF", io.ErrUnexpectedEOF},
	{"reset", memconn.ErrReset},
}

type c04Obs struct {
	Complete      [][]byte // complete messages as observed
	Partial       []byte   // bytes handed out for the message in progress
	Err           error    // final error
	CleanEOFAfter bool     // a later read yielded data or a clean result after the failure
	Note          string
}

// cutPosition classifies a cut offset relative to the frames of the stream.
func cutPosition(frames []ref.Frame, ends []int, cut int) (kind string, insideMsg bool) {
	start := 0
	open := false
	for i, f := range frames {
		end := ends[i]
		hdr := end - start - len(f.Payload)
		if cut > start && cut < end {
			if cut-start < hdr {
				return "in-header", open || !f.IsControl()
			}
			return "in-payload", open || !f.IsControl()
		}
		if cut == start {
			if open {
				return "between-fragments", true
			}
			return "boundary", false
		}
		if !f.IsControl() {
			open = !f.Fin
		}
		start = end
	}
	if open {
		return "between-fragments", true
	}
	return "boundary", false
}

// runC04Cut feeds stream[:cut] then ends the transport with kind, observing through api.
func runC04Cut(t fataler, mode c03Mode, msgs []inMsg, frames []ref.Frame, ends []int, stream []byte, cut int, kindErr error, api string, buf int, inside bool) string {
	e := newEnv(t)
	defer e.Teardown()
	lc, err := e.open(connSpec{Client: mode.Client, Mode: mode.Mode, Ext: mode.Ext})
	if err != nil {
		return "handshake: " + err.Error()
	}
	lc.Peer.start(e)
	// in a third of the cuts the transport hands over the last bytes together with its error
	// (what arrived before the error arrived, and a message that is complete with them is complete)
	withData := (cut+len(stream))%3 == 0
	lc.End.SetErrWithLastBytes(withData)
	if withData {
		evid.For("C04").Class("transport-error-returned-together-with-the-last-bytes", 1)
	}
	lc.End.Write(stream[:cut])
	lc.End.CloseWrite(kindErr)
	// what a complete receiver has at this cut
	nComplete := 0 // frames wholly contained
	for nComplete < len(frames) && ends[nComplete] <= cut {
		nComplete++
	}
	wantMsgs := 0
	{
		fi := 0
		for mi, m := range msgs {
			// frames of message mi: its controls and fragments, in order
			cnt := len(m.Frags)
			for _, cs := range m.Controls {
				cnt += len(cs)
			}
			// the message is complete when its last *fragment* is in; trailing controls don't matter
			lastFrag := fi + cnt - len(m.Controls[len(m.Frags)])
			if lastFrag <= nComplete {
				wantMsgs = mi + 1
			}
			fi += cnt
		}
	}
	var obs c04Obs
	conn := lc.C
	done := e.Call(func() {
		ctx := context.Background()
		switch api {
		case "reader":
			conn.SetReadLimit(1 << 20)
			tr := readAllMsgs(conn, func() int { return buf }, len(msgs)+2)
			for _, m := range tr.Msgs {
				if m.EOF {
					obs.Complete = append(obs.Complete, m.Data)
				} else {
					obs.Partial = m.Data
				}
			}
			obs.Err = tr.FinalErr
			// no later read yields data
			if _, r, err := conn.Reader(ctx); err == nil {
				b, _ := io.ReadAll(r)
				if len(b) > 0 {
					obs.CleanEOFAfter = true
				}
			}
		case "iocopy":
			// the message reader handed to io.Copy (which uses the reader's WriteTo or the writer's ReadFrom if there is
			// one): a clean end of the copy is the reader's word that the message is complete
			conn.SetReadLimit(1 << 20)
			for i := 0; i < len(msgs)+2; i++ {
				_, r, err := conn.Reader(ctx)
				if err != nil {
					obs.Err = err
					break
				}
				var b bytes.Buffer
				_, err = io.Copy(&b, r)
				if err != nil {
					obs.Partial = b.Bytes()
					obs.Err = err
					break
				}
				obs.Complete = append(obs.Complete, b.Bytes())
			}
		case "read":
			conn.SetReadLimit(1 << 20)
			for i := 0; i < len(msgs)+2; i++ {
				_, b, err := conn.Read(ctx)
				if err != nil {
					obs.Partial = b
					obs.Err = err
					break
				}
				obs.Complete = append(obs.Complete, b)
			}
		case "netconn":
			nc := websocket.NetConn(ctx, conn, websocket.MessageBinary)
			var all []byte
			for {
				b := make([]byte, buf)
				n, err := nc.Read(b)
				all = append(all, b[:n]...)
				if err != nil {
					obs.Err = err
					break
				}
				if n == 0 {
					obs.Note = "NetConn.Read returned 0, nil"
					break
				}
			}
			obs.Partial = all // byte stream: checked as a whole
		case "wsjson":
			conn.SetReadLimit(1 << 20)
			for i := 0; i < len(msgs)+2; i++ {
				var v json.RawMessage
				err := wsjson.Read(ctx, conn, &v)
				if err != nil {
					obs.Err = err
					break
				}
				obs.Complete = append(obs.Complete, append([]byte(nil), v...))
			}
		}
	})
	if !within(done, 300*time.Second) {
		return "reads did not terminate within 300 s (virtual) after the transport ended"
	}
	if ps := e.Panics(); len(ps) > 0 {
		return "library panicked: " + ps[0]
	}
	if obs.Note != "" {
		return obs.Note
	}
	if obs.Err == nil {
		return "reading ended without an error although the transport ended"
	}
	if api == "netconn" {
		var want []byte
		for i := 0; i < wantMsgs; i++ {
			want = append(want, msgs[i].payload...)
		}
		if !bytes.HasPrefix(obs.Partial, want) {
			return fmt.Sprintf("NetConn: the %d complete messages (%d bytes) are not a prefix of the %d bytes read", wantMsgs, len(want), len(obs.Partial))
		}
		rest := obs.Partial[len(want):]
		if wantMsgs < len(msgs) {
			if !bytes.HasPrefix(msgs[wantMsgs].payload, rest) {
				return fmt.Sprintf("NetConn: %d bytes read past the complete messages are not a prefix of the message in progress", len(rest))
			}
		} else if len(rest) > 0 {
			return "NetConn: bytes beyond the stream"
		}
		// io.EOF itself (what io.Copy, io.ReadAll and bufio compare against) is the
		// byte stream's clean end; a cut inside a message must not produce it.
		if obs.Err == io.EOF && inside {
			return "NetConn.Read returned io.EOF for a transport that ended in the middle of a message"
		}
		return ""
	}
	if len(obs.Complete) < wantMsgs {
		return fmt.Sprintf("%d complete messages delivered, %d were received completely before the cut (err=%v)", len(obs.Complete), wantMsgs, obs.Err)
	}
	if len(obs.Complete) > wantMsgs {
		return fmt.Sprintf("%d messages reported complete but only %d were received completely before the cut: silent truncation (message %d returned %d of %d bytes with a clean end)", len(obs.Complete), wantMsgs, wantMsgs, len(obs.Complete[wantMsgs]), len(msgs[wantMsgs].payload))
	}
	for i := 0; i < wantMsgs; i++ {
		if api == "wsjson" {
			if !bytes.Equal(bytes.TrimSpace(obs.Complete[i]), msgs[i].payload) {
				return fmt.Sprintf("wsjson message %d differs", i)
			}
			continue
		}
		if !bytes.Equal(obs.Complete[i], msgs[i].payload) {
			return fmt.Sprintf("message %d completed before the cut differs (got %d bytes, want %d, first diff %d)", i, len(obs.Complete[i]), len(msgs[i].payload), firstDiff(obs.Complete[i], msgs[i].payload))
		}
	}
	if len(obs.Partial) > 0 {
		if wantMsgs >= len(msgs) {
			return fmt.Sprintf("%d bytes handed out after the last message", len(obs.Partial))
		}
		if !bytes.HasPrefix(msgs[wantMsgs].payload, obs.Partial) {
			return fmt.Sprintf("the %d bytes handed out before the error are not a prefix of the message's payload (got %x..., payload starts %x)", len(obs.Partial), obs.Partial[:min(8, len(obs.Partial))], msgs[wantMsgs].payload[:min(8, len(msgs[wantMsgs].payload))])
		}
	}
	if obs.CleanEOFAfter {
		return "a read after the failure yielded data"
	}
	return ""
}

func TestC04(t *testing.T) {
	rec := evid.For("C04")
	rec.Rule = "rapid draws a scripted stream (2-5 messages, 1-4 fragments each, optional interleaved Ping/Pong, in a fifth of the streams a Close frame (1000/1001) between two fragments of a message and nothing behind it, uncompressed or compressed with either takeover setting and any foreign deflater, binary-only and JSON flavours for the NetConn / wsjson views); the check then enumerates EVERY cut offset 0..len(stream) x transport termination {EOF, io.ErrUnexpectedEOF, reset error} with the observation API (Reader+Read with two buffer sizes, Conn.Read, NetConn.Read, wsjson.Read) rotating per cut and all APIs at offsets within 2 bytes of a frame boundary. Non-trivial: the cut lies strictly inside a message (inside a header, between fragments, inside a payload). distinct = hash(stream shape, cut position kind, termination, API, compression)."
	maxLen := 300
	if evid.Thorough() {
		maxLen = 2500
	}
	checkProp(t, func(rt *rapid.T) { c04Case(rt, rec, maxLen, 0) })
	rec.Exhaustive("every cut offset of each generated stream x 3 terminations", true)
}

// TestC04Big: the same check on streams with messages of up to 70000 bytes (sizes
// beyond the buffers and fast paths an implementation may have for small
// messages), with a sample of the cut offsets: every offset within 2 bytes of a
// frame boundary or header end, plus 40 drawn ones.
func TestC04Big(t *testing.T) {
	rec := evid.For("C04")
	checkProp(t, func(rt *rapid.T) { c04Case(rt, rec, 70000, 40) })
}

func c04Case(rt *rapid.T, rec *evid.Rec, maxLen, sample int) {
	{
		mode := rapid.SampledFrom(c03Modes).Draw(rt, "mode")
		deflate := mode.Mode != websocket.CompressionDisabled
		takeover := deflate && (mode.Name == "server/takeover" || mode.Name == "client/takeover" || mode.Name == "client/takeover-client_no_ctx-resp")
		flavour := rapid.SampledFrom([]string{"generic", "generic", "binary", "json"}).Draw(rt, "flavour")
		maxMsgs := 5
		if sample > 0 {
			maxMsgs = 2
		}
		msgs, frames := genInStream(rt, inStreamOpts{Deflate: deflate, Takeover: takeover, MaxMsgs: maxMsgs, MaxLen: maxLen, MaxFrags: 4, Controls: true, AllowBFin: true, JSONish: flavour == "json"})
		closeMid := ""
		if rapid.IntRange(0, 4).Draw(rt, "closeInsideMessage") == 0 {
			// the peer sends a Close frame (normal closure / going away) between two fragments of a
			// message and nothing after it: the message in progress never completes, whatever the
			// API makes of the close status
			var cands []int
			for mi, m := range msgs {
				if len(m.Frags) >= 2 {
					cands = append(cands, mi)
				}
			}
			if len(cands) > 0 {
				mi := cands[rapid.IntRange(0, len(cands)-1).Draw(rt, "closeInMsg")]
				j := rapid.IntRange(1, len(msgs[mi].Frags)-1).Draw(rt, "closeBeforeFragment")
				fi := 0
				for k := 0; k < mi; k++ {
					fi += len(msgs[k].Frags)
					for _, cs := range msgs[k].Controls {
						fi += len(cs)
					}
				}
				for jj := 0; jj < j; jj++ {
					fi += len(msgs[mi].Controls[jj]) + 1
				}
				fi += len(msgs[mi].Controls[j])
				code := rapid.SampledFrom([]int{1000, 1001}).Draw(rt, "closeCode")
				cf := ref.Frame{Fin: true, Opcode: ref.OpClose, Payload: ref.ClosePayload(code, "")}
				msgs[mi].Controls[j] = append(msgs[mi].Controls[j], cf)
				frames = append(frames[:fi:fi], cf)
				closeMid = fmt.Sprintf("|close%d-in-msg%d-before-frag%d", code, mi, j)
			}
		}
		if flavour == "binary" {
			for i := range frames {
				if frames[i].Opcode == ref.OpText {
					frames[i].Opcode = ref.OpBinary
				}
			}
			for i := range msgs {
				msgs[i].Text = false
			}
		}
		frames, stream, ends := finishMasking(frames, mode.Client)
		apis := []string{"reader", "reader2", "read", "iocopy"}
		switch flavour {
		case "binary":
			apis = append(apis, "netconn")
		case "json":
			apis = append(apis, "wsjson")
		}
		buf1 := rapid.SampledFrom([]int{1, 2, 3, 7, 64}).Draw(rt, "smallBuf")
		buf2 := rapid.SampledFrom([]int{512, 4096, 32768}).Draw(rt, "largeBuf")
		boundary := map[int]bool{}
		start := 0
		for i, f := range frames {
			hdr := ends[i] - start - len(f.Payload)
			for d := -2; d <= 2; d++ {
				boundary[start+d] = true
				boundary[start+hdr+d] = true
				boundary[ends[i]+d] = true
			}
			start = ends[i]
		}
		shape := mode.Name + "|" + flavour + closeMid
		for _, m := range msgs {
			shape += fmt.Sprintf("|%v%v%d/%d", m.Compressed, m.Variant, len(m.Frags), lenClass(m.Len))
		}
		var drawn map[int]bool
		if sample > 0 {
			drawn = map[int]bool{}
			for i := 0; i < sample; i++ {
				drawn[rapid.IntRange(0, len(stream)).Draw(rt, "cutAt")] = true
			}
		}
		var fail string
		rapid.SyncTest(rt, func(rt *rapid.T) {
			for cut := 0; cut <= len(stream) && fail == ""; cut++ {
				if drawn != nil && !drawn[cut] && !boundary[cut] {
					continue
				}
				pos, inside := cutPosition(frames, ends, cut)
				for ki, k := range c04Kinds {
					use := []string{apis[(cut+ki)%len(apis)]}
					if boundary[cut] {
						use = apis
					}
					for _, api := range use {
						buf := buf2
						a := api
						if api == "reader" {
							buf = buf1
						}
						if api == "reader2" {
							a = "reader"
						}
						if api == "netconn" {
							buf = []int{buf1, buf2}[(cut+ki)%2]
						}
						msg := runC04Cut(rt, mode, msgs, frames, ends, stream, cut, k.Err, a, buf, inside)
						comp := "plain"
						if deflate {
							comp = "deflate"
						}
						rec.Case(inside, fmt.Sprintf("%s|%s|%s|%s|%s", shape, pos, k.Name, api, comp), "pos:"+pos, "end:"+k.Name, "api:"+a, "comp:"+comp, "pos-api:"+pos+"/"+a)
						if msg != "" {
							fail = fmt.Sprintf("mode=%s flavour=%s cut=%d/%d (%s) end=%s api=%s buf=%d: %s\nmsgs=%v\nstream=%x", mode.Name, flavour, cut, len(stream), pos, k.Name, api, buf, msg, msgs, stream)
							return
						}
					}
				}
			}
		})
		if rec.WantSample() {
			rec.Sample(map[string]any{"mode": mode.Name, "flavour": flavour, "stream_len": len(stream), "cuts": len(stream) + 1, "msgs": fmt.Sprint(msgs)})
		}
		if fail != "" {
			rt.Fatalf("C04 %s", fail)
		}
	}
}

// TestC04Transient: the transport fails ONCE, at a drawn byte offset, and then carries on (a
// deadline of the transport's own, an interrupted system call: net.Error with Timeout()). The
// application does what applications do with such an error: it reads again. Whatever the
// library makes of that - give up the connection, or resume - (1) a message is reported
// complete only if it is byte-identical to a message the peer sent, in order (a retried read
// that re-parses from the middle of a frame reports a truncated message complete, or takes
// payload for frames: defect D21), and (2) every message that was complete before the fault
// is delivered. Every fault offset of each generated stream is enumerated.
func TestC04Transient(t *testing.T) {
	rec := evid.For("C04")
	checkProp(t, func(rt *rapid.T) {
		mode := rapid.SampledFrom(c03Modes).Draw(rt, "mode")
		deflate := mode.Mode != websocket.CompressionDisabled
		takeover := deflate && (mode.Name == "server/takeover" || mode.Name == "client/takeover" || mode.Name == "client/takeover-client_no_ctx-resp")
		msgs, frames := genInStream(rt, inStreamOpts{Deflate: deflate, Takeover: takeover, MaxMsgs: 3, MaxLen: 120, MaxFrags: 3, Controls: true})
		frames, stream, ends := finishMasking(frames, mode.Client)
		buf := rapid.SampledFrom([]int{1, 5, 64, 4096, -1}).Draw(rt, "readBuf")
		step := 1
		if len(stream) > 400 {
			step = len(stream)/400 + 1
		}
		for off := 0; off < len(stream); off += step {
			var msg string
			rapid.SyncTest(rt, func(rt *rapid.T) {
				e := newEnv(rt)
				defer e.Teardown()
				lc, err := e.open(connSpec{Client: mode.Client, Mode: mode.Mode, Ext: mode.Ext})
				if err != nil {
					msg = "handshake: " + err.Error()
					return
				}
				lc.Peer.start(e)
				lc.C.SetReadLimit(1 << 20)
				lc.End.SetReadFault(off, c04Timeout{})
				lc.End.Write(stream)
				lc.End.CloseWrite(nil)
				var tr readTrace
				d := e.Call(func() { tr = readAllMsgs(lc.C, func() int { return buf }, len(msgs)+2) })
				if !within(d, 120*time.Second) {
					msg = "reads did not return"
					return
				}
				// messages wholly received before the fault
				before := 0
				{
					fi := 0
					for _, m := range msgs {
						cnt := len(m.Frags)
						for _, cs := range m.Controls {
							cnt += len(cs)
						}
						last := fi + cnt - len(m.Controls[len(m.Frags)]) // index one past the last fragment
						if last >= 1 && ends[last-1] <= off {
							before++
						}
						fi += cnt
					}
				}
				var complete [][]byte
				for _, m := range tr.Msgs {
					if m.EOF {
						complete = append(complete, m.Data)
					}
				}
				for _, m := range tr.After {
					complete = append(complete, m.Data)
				}
				// in order, each one byte-identical to a message that was sent
				j := 0
				for i, got := range complete {
					for j < len(msgs) && !bytes.Equal(msgs[j].payload, got) {
						j++
					}
					if j == len(msgs) {
						msg = fmt.Sprintf("message %d reported complete (%d bytes) is not a message the peer sent (or is out of order): a read retried after the transient error at offset %d resumed in the wrong place", i, len(got), off)
						return
					}
					j++
				}
				if len(complete) < before {
					msg = fmt.Sprintf("%d messages had arrived completely before the transport's transient error at offset %d, %d were delivered", before, off, len(complete))
				}
			})
			kind, inside := cutPosition(frames, ends, off)
			rec.Case(inside, fmt.Sprintf("transient|%s|%s|%d|%d", mode.Name, kind, len(frames), buf), "transient-fault:"+kind)
			if msg != "" {
				rt.Fatalf("C04 transient mode=%s fault at %d/%d (%s) buf=%d msgs=%v: %s", mode.Name, off, len(stream), kind, buf, msgs, msg)
			}
		}
	})
}

// c04Timeout is a transient transport error as net.Conn implementations report them.
type c04Timeout struct{}

func (c04Timeout) Error() string   { return "i/o timeout (transient)" }
func (c04Timeout) Timeout() bool   { return true }
func (c04Timeout) Temporary() bool { return true }
