package props

import (
	"bytes"
	"context"
	"fmt"
	"io"
	"strings"
	"testing"
	"testing/synctest"
	"time"

	"nhooyr.io/websocket"
	"pgregory.net/rapid"
	"verif/harness/evid"
	"verif/harness/ref"
)

// C10 — a context bounds only its own call; after success its cancellation is harmless.

type c10Op struct {
	Kind       string // read | write | ping | lockwait (a Write whose context expires while it waits for another goroutine's open message)
	Len        int
	Frags      int
	CtlInside  bool
	Compressed bool
	PongDelay  time.Duration
	Ctx        string        // cancel-after | deadline-after | background | cancel-during | deadline-during | cancelled-before
	Delay      time.Duration // after: time between the call's return and the cancellation; deadline-after: the timeout
	Pause      time.Duration // pause before the next op
	Block      string        // for *-during reads: nothing | first-fragment | partial-payload | partial-header
	Beside     string        // for *-during writes: "" | ping | peer-ping: a control frame queued behind the blocked write
	Chunks     []int         // write ops: non-empty = streamed through Writer with these chunk sizes
	K          int           // header-buffered: bytes of the next frame's header that arrive together with the message in front of it
	PeerPing   bool          // reads that succeed: the peer sends a Ping in front of the message...
	PongStall  time.Duration // ...and takes no bytes (so that the Pong cannot leave) for this long
	// SharedPrev (last op, cancel-during): the call that blocks runs under the SAME context as the successful call before
	// it (an application that uses one context for a whole exchange): the context must bound this call just the same
	SharedPrev bool
}

type c10Case struct {
	Mode c03Mode
	Ops  []c10Op
}

func genC10(rt *rapid.T) c10Case {
	var c c10Case
	c.Mode = rapid.SampledFrom(c16Modes).Draw(rt, "mode")
	n := rapid.IntRange(3, 10).Draw(rt, "nOps")
	ending := rapid.IntRange(0, 5).Draw(rt, "ending")
	during := ending < 2
	for i := 0; i < n; i++ {
		var o c10Op
		o.Kind = rapid.SampledFrom([]string{"read", "read", "read", "write", "write", "write", "ping", "ping", "lockwait"}).Draw(rt, "kind")
		o.Len = rapid.SampledFrom([]int{0, 1, 125, 126, 300, 5000, 70000}).Draw(rt, "len")
		o.Frags = rapid.IntRange(1, 4).Draw(rt, "frags")
		o.CtlInside = rapid.Bool().Draw(rt, "ctlInside")
		o.Compressed = rapid.Bool().Draw(rt, "compressed")
		o.PongDelay = rapid.SampledFrom([]time.Duration{0, time.Millisecond, 2 * time.Second}).Draw(rt, "pongDelay")
		o.Pause = rapid.SampledFrom([]time.Duration{0, 0, time.Millisecond, 2 * time.Second}).Draw(rt, "pause")
		if o.Kind == "read" && rapid.IntRange(0, 3).Draw(rt, "peerPing") == 0 {
			o.PeerPing = true
			o.PongStall = rapid.SampledFrom([]time.Duration{0, 300 * time.Millisecond, 2 * time.Second}).Draw(rt, "pongStall")
		}
		if o.Kind == "write" && rapid.Bool().Draw(rt, "streamed") {
			for k := rapid.IntRange(1, 3).Draw(rt, "nChunks"); k > 0; k-- {
				o.Chunks = append(o.Chunks, rapid.SampledFrom([]int{1, 100, 4080, 4088, 4089, 4090, 4092, 4093, 4094, 4095, 4096, 4097, 9000}).Draw(rt, "chunk"))
			}
		}
		if i == n-1 && ending == 2 {
			if o.Kind == "lockwait" {
				o.Kind = "write"
			}
			o.Ctx = "cancelled-before"
		} else if o.Kind == "lockwait" {
			o.Ctx = "deadline-during"
			o.Delay = rapid.SampledFrom([]time.Duration{time.Millisecond, 100 * time.Millisecond, 3 * time.Second}).Draw(rt, "waitTimeout")
			if o.Len < 2 {
				o.Len = 300
			}
		} else if i == n-1 && during {
			o.Ctx = rapid.SampledFrom([]string{"cancel-during", "deadline-during"}).Draw(rt, "ctxDuring")
			o.Block = rapid.SampledFrom([]string{"nothing", "first-fragment", "partial-payload", "partial-header", "pong-blocked", "header-buffered", "header-buffered", "pong-behind-stuck-ping"}).Draw(rt, "block")
			if o.Block == "header-buffered" {
				// a complete small message and the first K bytes of the next frame's header arrive in
				// one piece: the small message is read first, then the call under test blocks in the
				// middle of a header whose beginning is already buffered
				o.Len = rapid.SampledFrom([]int{200, 70000}).Draw(rt, "bufferedLen")
				o.K = rapid.IntRange(1, 13).Draw(rt, "bufferedHeaderBytes")
			}
			o.Beside = rapid.SampledFrom([]string{"", "ping", "peer-ping", "stuck-ping-first"}).Draw(rt, "beside")
			if o.Len < 3 {
				o.Len = 300
			}
			if o.Ctx == "cancel-during" && i > 0 && c.Ops[i-1].Kind != "lockwait" {
				o.SharedPrev = rapid.IntRange(0, 2).Draw(rt, "sameContextAsThePreviousCall") == 0
			}
		} else {
			o.Ctx = rapid.SampledFrom([]string{"cancel-after", "cancel-after", "deadline-after", "background"}).Draw(rt, "ctx")
			if o.Ctx == "deadline-after" {
				o.Delay = rapid.SampledFrom([]time.Duration{5 * time.Second, time.Hour}).Draw(rt, "timeout")
			} else {
				o.Delay = rapid.SampledFrom([]time.Duration{0, 0, time.Millisecond, time.Second, time.Hour}).Draw(rt, "cancelDelay")
			}
		}
		c.Ops = append(c.Ops, o)
	}
	return c
}

type c10Result struct {
	SharedCtx  bool
	NonTrivial bool
	During     bool
	LockWait   bool
	Before     bool
	Stale      bool
}

// c10LockWait: goroutine A has a message open through Writer. B's Write has a
// context that expires while B waits for A's message to end (no I/O of B is in
// flight): B fails at its deadline, and that is all that happens - A's message is
// still exclusive (C, with a live context, keeps waiting), the connection stays
// open, and the peer receives A's message and then C's, intact.
func c10LockWait(e *env, lc *libConn, i int, o c10Op) string {
	conn, base := lc.C, context.Background()
	body := expand(ckText, uint64(i)*31+7, o.Len)
	half := len(body) / 2
	synctest.Wait() // the peer has parsed everything written so far
	before, _ := lc.Peer.snapshot()
	var w io.WriteCloser
	var aerr error
	d := e.Call(func() {
		w, aerr = conn.Writer(base, websocket.MessageText)
		if aerr == nil {
			_, aerr = w.Write(body[:half])
		}
	})
	if !within(d, 10*time.Second) || aerr != nil {
		return fmt.Sprintf("op %d lockwait: opening the first message failed: %v", i, aerr)
	}
	bctx, bcancel := context.WithTimeout(base, o.Delay)
	defer bcancel()
	start := time.Now()
	var berr error
	bd := e.Call(func() { berr = conn.Write(bctx, websocket.MessageBinary, []byte("B must never be sent")) })
	if !within(bd, o.Delay+time.Second) {
		return fmt.Sprintf("op %d lockwait: a Write waiting for another message did not return within 1 s of its own deadline (%v)", i, o.Delay)
	}
	if berr == nil {
		return fmt.Sprintf("op %d lockwait: a second Write returned nil while another goroutine's message was still open", i)
	}
	if time.Since(start) < o.Delay {
		return fmt.Sprintf("op %d lockwait: the waiting Write failed after %v, before its deadline of %v: %v", i, time.Since(start), o.Delay, berr)
	}
	if cl, _ := lc.Lib.Closed(); cl {
		return fmt.Sprintf("op %d lockwait: the connection was closed because a Write gave up waiting for its turn (%v)", i, berr)
	}
	third := []byte(fmt.Sprintf("third message of op %d", i))
	var cerr error
	// withThird: a third Write (live context) queues before the open message continues. Without it the
	// open message continues right after the second Write gave up: whatever that call left behind in
	// the connection's shared writer (its context, say) is still there.
	withThird := o.CtlInside
	cd := make(<-chan struct{})
	if withThird {
		cd = e.Call(func() { cerr = conn.Write(base, websocket.MessageBinary, third) })
		synctest.Wait()
		select {
		case <-cd:
			return fmt.Sprintf("op %d lockwait: after a waiting Write gave up (%v), the next Write did not wait for the open message any more (err=%v): the message lock was released by a call that never held it", i, berr, cerr)
		default:
		}
	}
	d = e.Call(func() {
		if _, aerr = w.Write(body[half:]); aerr == nil {
			aerr = w.Close()
		}
	})
	if !within(d, 10*time.Second) || aerr != nil {
		return fmt.Sprintf("op %d lockwait: finishing the first message failed after a Write of another goroutine had given up waiting for it (%v): %v", i, berr, aerr)
	}
	if !withThird {
		cd = e.Call(func() { cerr = conn.Write(base, websocket.MessageBinary, third) })
	}
	if !within(cd, 10*time.Second) || cerr != nil {
		return fmt.Sprintf("op %d lockwait: the Write that waited with a live context failed: %v", i, cerr)
	}
	synctest.Wait()
	all, _ := lc.Peer.snapshot()
	var wire []byte
	for _, f := range all[len(before):] {
		f.Masked = false
		wire = append(wire, f.Encode()...)
	}
	rep, verr := ref.ValidateStream(wire, ref.StreamOpts{FromClient: false, Deflate: lc.Agreed.Deflate, Takeover: false}, false)
	if !lc.Agreed.Deflate || !lc.Agreed.SenderTakeover(lc.Spec.Client) {
		if verr != nil {
			return fmt.Sprintf("op %d lockwait: frames on the wire are not two well-formed messages: %v", i, verr)
		}
		if len(rep.Messages) != 2 || !bytes.Equal(rep.Messages[0].Payload, body) || !bytes.Equal(rep.Messages[1].Payload, third) {
			return fmt.Sprintf("op %d lockwait: the peer received %d messages, want exactly the streamed one (%d bytes) and the third", i, len(rep.Messages), len(body))
		}
	} else {
		// with context takeover the frames of this op alone cannot be inflated; check the framing only
		n, fins := 0, 0
		for _, f := range all[len(before):] {
			if f.IsControl() {
				continue
			}
			n++
			if f.Fin {
				fins++
			}
		}
		if fins != 2 {
			return fmt.Sprintf("op %d lockwait: %d data frames with %d final frames on the wire, want two messages", i, n, fins)
		}
	}
	return ""
}

// c10CancelledBefore: a call made with a context that is already cancelled may
// fail, and may close the connection, but it must not make later calls with live
// contexts of their own wait: each of them succeeds or fails at once because the
// connection is closed.
func c10CancelledBefore(e *env, lc *libConn, i int, o c10Op, sendIn func([]byte)) string {
	conn, base := lc.C, context.Background()
	ctx, cancel := context.WithCancel(base)
	cancel()
	payload := expand(ckText, uint64(i)*31+7, o.Len)
	var d <-chan struct{}
	switch o.Kind {
	case "read":
		sendIn(payload)
		d = e.Call(func() { conn.Read(ctx) })
	case "write":
		if len(o.Chunks) > 0 {
			d = e.Call(func() {
				w, err := conn.Writer(ctx, websocket.MessageBinary)
				if err != nil {
					return
				}
				w.Write(payload)
				w.Close()
			})
		} else {
			d = e.Call(func() { conn.Write(ctx, websocket.MessageBinary, payload) })
		}
	case "ping":
		d = e.Call(func() { conn.Ping(ctx) })
	}
	if !within(d, 10*time.Second) {
		return fmt.Sprintf("op %d (%s with an already cancelled context) did not return", i, o.Kind)
	}
	probe := func(name string, f func(ctx context.Context) error) string {
		pctx, pcancel := context.WithTimeout(base, 30*time.Second)
		defer pcancel()
		var err error
		pd := e.Call(func() { err = f(pctx) })
		if !within(pd, 10*time.Second) {
			cl, _ := lc.Lib.Closed()
			return fmt.Sprintf("op %d: after a %s with an already cancelled context, a %s with a live 30 s context of its own was still blocked after 10 s (connection closed: %v): the cancelled call left something locked", i, o.Kind, name, cl)
		}
		if err != nil {
			e.sleep(time.Second)
			if cl, _ := lc.Lib.Closed(); !cl {
				return fmt.Sprintf("op %d: after a %s with an already cancelled context, a %s with a live context failed (%v) although the connection is open", i, o.Kind, name, err)
			}
		}
		return ""
	}
	if m := probe("Write", func(ctx context.Context) error { return conn.Write(ctx, websocket.MessageText, []byte("probe")) }); m != "" {
		return m
	}
	lc.Peer.send(ref.Frame{Fin: true, Opcode: ref.OpText, Payload: []byte("probe in")})
	if m := probe("Read", func(ctx context.Context) error {
		for {
			// earlier unread input may precede the probe message
			_, b, err := conn.Read(ctx)
			if err != nil || string(b) == "probe in" {
				return err
			}
		}
	}); m != "" {
		return m
	}
	return ""
}

func runC10(t fataler, c c10Case) (string, c10Result) {
	var res c10Result
	e := newEnv(t)
	defer e.Teardown()
	lc, err := e.open(connSpec{Client: c.Mode.Client, Mode: c.Mode.Mode, Ext: c.Mode.Ext})
	if err != nil {
		return "handshake: " + err.Error(), res
	}
	conn := lc.C
	conn.SetReadLimit(1 << 20)
	p := lc.Peer
	peerTakeover := lc.Agreed.SenderTakeover(!c.Mode.Client)
	def := ref.NewDeflater(peerTakeover)
	// what the peer does when it sees a Ping: set per op
	var onPing func(f ref.Frame)
	p.onFrame = func(f ref.Frame) {
		if f.Opcode == ref.OpPing && onPing != nil {
			onPing(f)
		}
	}
	p.start(e)
	base := context.Background()

	// sendMsg writes one inbound message as frames; upTo limits how much is sent
	// (for blocked reads): "all", "nothing", "first-fragment", "partial-payload", "partial-header".
	sendMsg := func(o c10Op, payload []byte, upTo string) {
		raw := payload
		comp := o.Compressed && lc.Agreed.Deflate
		if comp {
			raw = def.Message(payload, ref.DVSync)
		}
		nf := o.Frags
		if upTo == "first-fragment" && nf < 2 {
			nf = 2
		}
		per := len(raw)/nf + 1
		var frames []ref.Frame
		for j, off := 0, 0; j < nf; j++ {
			end := off + per
			if end > len(raw) || j == nf-1 {
				end = len(raw)
			}
			f := ref.Frame{Fin: j == nf-1, Payload: raw[off:end]}
			if j == 0 {
				f.Opcode, f.Rsv1 = ref.OpBinary, comp
			}
			if j > 0 && o.CtlInside {
				frames = append(frames, ref.Frame{Fin: true, Opcode: ref.OpPong, Payload: []byte("unsolicited")})
			}
			frames = append(frames, f)
			off = end
		}
		switch upTo {
		case "all":
			if o.Len%2 == 1 || o.Frags == 3 {
				// everything in ONE segment, with a further complete frame (an unsolicited Pong) behind the message: when the
				// read of the message returns, bytes of the next frame are already sitting in the library's buffer
				var seg []byte
				for _, f := range append(append([]ref.Frame(nil), frames...), ref.Frame{Fin: true, Opcode: ref.OpPong, Payload: []byte("behind the message")}) {
					seg = append(seg, p.prep(f).Encode()...)
				}
				evid.For("C10").Class("message-and-the-next-frame-arrive-in-one-segment", 1)
				p.sendRaw(seg)
				break
			}
			for _, f := range frames {
				p.send(f)
			}
		case "nothing":
		case "first-fragment":
			p.send(frames[0])
		case "header-buffered":
			first := ref.Frame{Fin: true, Opcode: ref.OpText, Payload: []byte("message in front of the stalled header")}
			next := ref.Frame{Fin: true, Opcode: ref.OpBinary, Payload: raw, Rsv1: comp}
			_, b0, _ := finishMasking([]ref.Frame{first}, c.Mode.Client)
			_, b1, _ := finishMasking([]ref.Frame{next}, c.Mode.Client)
			hdr := len(b1) - len(raw)
			k := o.K
			if k >= hdr {
				k = hdr - 1
			}
			p.sendRaw(append(append([]byte(nil), b0...), b1[:k]...))
		case "partial-payload", "partial-header":
			_, b, _ := finishMasking(frames[:1], c.Mode.Client)
			hdr := len(b) - len(frames[0].Payload)
			cut := hdr + len(frames[0].Payload)/2
			if upTo == "partial-header" {
				cut = 1
			}
			p.sendRaw(b[:cut])
		}
	}

	type pendingCancel struct{ cancel context.CancelFunc }
	mkCtx := func(o c10Op) (context.Context, context.CancelFunc) {
		switch o.Ctx {
		case "deadline-after":
			return context.WithTimeout(base, o.Delay)
		case "deadline-during":
			return context.WithTimeout(base, 3*time.Second)
		case "background":
			return base, func() {}
		}
		return context.WithCancel(base)
	}
	afterSuccess := func(o c10Op, cancel context.CancelFunc) {
		switch o.Ctx {
		case "cancel-after":
			if o.Delay == 0 {
				cancel()
			} else {
				d := o.Delay
				e.Go(func() {
					e.sleep(d)
					cancel()
				})
			}
		case "deadline-after":
			// expires by itself; release resources only at teardown
			e.mu.Lock()
			e.cancels = append(e.cancels, cancel)
			e.mu.Unlock()
		}
	}

	// roundTrip: the connection must be fully usable (both directions) with fresh contexts.
	roundTrip := func(tag string) string {
		payload := []byte("roundtrip " + tag)
		var werr, rerr error
		var got []byte
		d := e.Call(func() { werr = conn.Write(base, websocket.MessageText, payload) })
		if !within(d, 10*time.Second) || werr != nil {
			return fmt.Sprintf("%s: write with a fresh context failed: %v", tag, werr)
		}
		p.send(ref.Frame{Fin: true, Opcode: ref.OpText, Payload: payload})
		d = e.Call(func() { _, got, rerr = conn.Read(base) })
		if !within(d, 10*time.Second) || rerr != nil || !bytes.Equal(got, payload) {
			return fmt.Sprintf("%s: read with a fresh context failed: %v (%q)", tag, rerr, got)
		}
		return ""
	}

	var sharedCtx context.Context
	var sharedCancel context.CancelFunc
	wireSeen := 0 // outbound data frames accounted for
	cancelledAfterInteresting := false
	for i, o := range c.Ops {
		if o.Kind == "lockwait" {
			if m := c10LockWait(e, lc, i, o); m != "" {
				return m, res
			}
			res.LockWait = true
			e.sleep(o.Pause)
			continue
		}
		if o.Ctx == "cancelled-before" {
			res.During = true
			res.Before = true
			if m := c10CancelledBefore(e, lc, i, o, func(pl []byte) { sendMsg(o, pl, "all") }); m != "" {
				return m, res
			}
			break
		}
		ctx, cancel := mkCtx(o)
		if i+1 < len(c.Ops) && c.Ops[i+1].SharedPrev {
			// this call and the next one share one context, which ends while the next one is blocked
			cancel()
			ctx, cancel = context.WithCancel(base)
			sharedCtx, sharedCancel = ctx, cancel
			o.Ctx = "background" // nothing happens to it after this call's success
			res.SharedCtx = true
		} else if o.SharedPrev && sharedCtx != nil {
			cancel()
			ctx, cancel = sharedCtx, sharedCancel
		}
		during := o.Ctx == "cancel-during" || o.Ctx == "deadline-during"
		payload := expand(ckText, uint64(i)*31+7, o.Len)
		var staleWriter io.WriteCloser
		var staleReader io.Reader
		var opErr error
		var done <-chan struct{}
		start := time.Now()
		switch o.Kind {
		case "read":
			var got []byte
			if during && o.Block == "pong-blocked" {
				// the peer sends a Ping but accepts no bytes: the library blocks writing the Pong from inside Read
				lc.End.SetInBudget(0)
				p.send(ref.Frame{Fin: true, Opcode: ref.OpPing, Payload: expand(ckText, 3, 100)})
			} else if during && o.Block == "pong-behind-stuck-ping" {
				// a Ping of another goroutine is stuck in the transport (the peer takes no bytes);
				// the peer sends a Pong nobody asked for (legal), which the read under test takes
				// in on its way - and then nothing more
				lc.End.SetInBudget(0)
				e.Go(func() {
					pctx, pcancel := context.WithTimeout(base, 30*time.Second)
					defer pcancel()
					conn.Ping(pctx)
				})
				synctest.Wait()
				p.send(ref.Frame{Fin: true, Opcode: ref.OpPong, Payload: []byte("nobody asked")})
			} else if during && o.Block == "header-buffered" {
				oo := o
				oo.Frags, oo.CtlInside = 1, false
				sendMsg(oo, payload, "header-buffered")
				var fe error
				var fb []byte
				fd := e.Call(func() { _, fb, fe = conn.Read(base) })
				if !within(fd, 10*time.Second) || fe != nil || string(fb) != "message in front of the stalled header" {
					return fmt.Sprintf("op %d: the message in front of the stalled header was not delivered: %q, %v", i, fb, fe), res
				}
			} else if during {
				sendMsg(o, payload, o.Block)
			} else {
				if o.PeerPing {
					// the Pong has to wait until the peer takes bytes again; the message behind the
					// Ping is delivered once it is out. Whatever the library still does for this
					// read afterwards is no longer covered by the read's context
					if st := o.PongStall; st > 0 {
						lc.End.SetInBudget(0)
						e.Go(func() {
							e.sleep(st)
							lc.End.SetInBudget(-1)
						})
					}
					p.send(ref.Frame{Fin: true, Opcode: ref.OpPing, Payload: []byte(fmt.Sprintf("ping in front of message %d", i))})
				}
				sendMsg(o, payload, "all")
			}
			if !during && (i+o.Frags)%2 == 0 {
				done = e.Call(func() {
					var r io.Reader
					_, r, opErr = conn.Reader(ctx)
					if opErr == nil {
						staleReader = r
						got, opErr = io.ReadAll(r)
					}
				})
			} else {
				done = e.Call(func() { _, got, opErr = conn.Read(ctx) })
			}
			if !during {
				if !within(done, 30*time.Second) {
					return fmt.Sprintf("op %d read did not return", i), res
				}
				if opErr != nil || !bytes.Equal(got, payload) {
					return fmt.Sprintf("op %d read: err=%v, %d bytes (want %d): an earlier context's cancellation leaked into this call?", i, opErr, len(got), len(payload)), res
				}
			}
		case "write":
			if during && o.Beside == "stuck-ping-first" {
				// a message is open; a Ping of another goroutine then gets stuck in the transport
				// holding the frame lock; the rest of the message waits for that lock with the
				// context under test
				if len(payload) < 10 {
					payload = expand(ckText, 5, 300)
				}
				var w io.WriteCloser
				var serr error
				sd := e.Call(func() {
					w, serr = conn.Writer(ctx, websocket.MessageBinary)
					if serr == nil {
						_, serr = w.Write(payload[:len(payload)/2])
					}
				})
				if !within(sd, 10*time.Second) || serr != nil {
					return fmt.Sprintf("op %d: opening the message failed: %v", i, serr), res
				}
				lc.End.SetInBudget(1)
				e.Go(func() {
					pctx, pcancel := context.WithTimeout(base, 30*time.Second)
					defer pcancel()
					conn.Ping(pctx)
				})
				synctest.Wait()
				rest := payload[len(payload)/2:]
				done = e.Call(func() {
					if _, opErr = w.Write(rest); opErr == nil {
						opErr = w.Close()
					}
				})
				break
			}
			if during {
				lc.End.SetInBudget(0)
				if len(payload) < 10 {
					payload = expand(ckText, 5, 300)
				}
			}
			if len(o.Chunks) > 0 {
				total := 0
				for _, ch := range o.Chunks {
					total += ch
				}
				payload = expand(ckText, uint64(i)*31+7, total)
				chunks := o.Chunks
				done = e.Call(func() {
					w, err := conn.Writer(ctx, websocket.MessageBinary)
					if err != nil {
						opErr = err
						return
					}
					staleWriter = w
					rest := payload
					for _, ch := range chunks {
						if _, err := w.Write(rest[:ch]); err != nil {
							opErr = err
							return
						}
						rest = rest[ch:]
					}
					opErr = w.Close()
				})
			} else {
				done = e.Call(func() { opErr = conn.Write(ctx, websocket.MessageBinary, payload) })
			}
			if !during {
				if !within(done, 30*time.Second) {
					return fmt.Sprintf("op %d write did not return", i), res
				}
				if opErr != nil {
					return fmt.Sprintf("op %d write failed: %v: an earlier context's cancellation leaked into this call?", i, opErr), res
				}
			}
		case "ping":
			sentinel := []byte(fmt.Sprintf("sentinel %d", i))
			delay := o.PongDelay
			onPing = func(f ref.Frame) {
				if during {
					return // withheld
				}
				pl := f.Payload
				e.Go(func() {
					if e.sleep(delay) {
						p.send(ref.Frame{Fin: true, Opcode: ref.OpPong, Payload: pl})
						p.send(ref.Frame{Fin: true, Opcode: ref.OpText, Payload: sentinel})
					}
				})
			}
			rctx, rcancel := context.WithCancel(base)
			var rerr error
			var rgot []byte
			rdone := e.Call(func() { _, rgot, rerr = conn.Read(rctx) })
			if during && o.Beside == "stuck-ping-first" {
				// a Ping of another goroutine is stuck in the transport; the Ping under test
				// queues behind it and must still give up when its own context ends
				lc.End.SetInBudget(0)
				e.Go(func() {
					pctx, pcancel := context.WithTimeout(base, 30*time.Second)
					defer pcancel()
					conn.Ping(pctx)
				})
				synctest.Wait()
			}
			done = e.Call(func() { opErr = conn.Ping(ctx) })
			if !during {
				if !within(done, 30*time.Second) || opErr != nil {
					return fmt.Sprintf("op %d ping failed: %v", i, opErr), res
				}
				if !within(rdone, 30*time.Second) || rerr != nil || !bytes.Equal(rgot, sentinel) {
					return fmt.Sprintf("op %d: reader running beside the ping failed: %v", i, rerr), res
				}
				rcancel() // cancelling the reader's context after its success is harmless too
			} else {
				e.mu.Lock()
				e.cancels = append(e.cancels, rcancel)
				e.mu.Unlock()
			}
		}
		if during {
			res.During = true
			synctest.Wait() // the call is now blocked
			if o.Kind == "write" && o.Beside != "" && o.Beside != "stuck-ping-first" {
				// a control frame with a context of its own queues behind the blocked write
				switch o.Beside {
				case "ping":
					e.Go(func() {
						pctx, pcancel := context.WithTimeout(base, 30*time.Second)
						defer pcancel()
						conn.Ping(pctx)
					})
				case "peer-ping":
					e.Go(func() { conn.Read(base) }) // a reader that will answer the peer's Ping
					p.send(ref.Frame{Fin: true, Opcode: ref.OpPing, Payload: []byte("are you there")})
				}
				synctest.Wait()
			}
			select {
			case <-done:
				return fmt.Sprintf("op %d (%s, %s) returned before its context ended although the peer withheld what it waits for (err=%v)", i, o.Kind, o.Block, opErr), res
			default:
			}
			var cancelAt time.Time
			if o.Ctx == "cancel-during" {
				e.sleep(time.Duration(i+1) * 100 * time.Millisecond)
				cancelAt = time.Now()
				cancel()
			} else {
				cancelAt = start.Add(3 * time.Second)
			}
			if !within(done, time.Until(cancelAt)+time.Second) {
				return fmt.Sprintf("op %d (%s) did not return within 1 s of its context ending", i, o.Kind), res
			}
			if time.Now().Before(cancelAt) {
				return fmt.Sprintf("op %d (%s) returned before its context ended (err=%v)", i, o.Kind, opErr), res
			}
			if opErr == nil {
				return fmt.Sprintf("op %d (%s) returned nil although its context ended while it was blocked", i, o.Kind), res
			}
			cancel()
			if o.Kind != "ping" {
				// blocked in transport I/O: the connection is closed, as documented
				e.sleep(time.Second)
				if cl, _ := lc.Lib.Closed(); !cl {
					return fmt.Sprintf("op %d (%s blocked in %s): context ended but the connection was not closed", i, o.Kind, o.Block), res
				}
				var e2 error
				d := e.Call(func() { e2 = conn.Write(base, websocket.MessageText, []byte("after")) })
				if !within(d, 10*time.Second) || e2 == nil {
					return "write succeeded after the connection was closed by a context", res
				}
			}
			break
		}
		// success: its context ends now or later, which must change nothing
		interesting := (o.Kind == "read" && (o.Frags > 1 || o.CtlInside)) || o.Kind == "ping" || (o.Kind == "write" && o.Len > 4096)
		if o.Ctx != "background" && interesting && i < len(c.Ops)-1 {
			cancelledAfterInteresting = true
		}
		afterSuccess(o, cancel)
		if o.Ctx == "cancel-after" && o.Delay == 0 && (staleWriter != nil || staleReader != nil) {
			// the context is cancelled now; using the finished writer / reader once more
			// (a deferred second Close, a Read after io.EOF) is at most an error of its
			// own and must leave the connection alone - the following operations show it
			var n int
			var e1, e2 error
			d := e.Call(func() {
				if staleWriter != nil {
					e1 = staleWriter.Close()
					_, e2 = staleWriter.Write([]byte("x"))
				} else {
					n, e1 = staleReader.Read(make([]byte, 16))
					e2 = e1
				}
			})
			if !within(d, 10*time.Second) {
				return fmt.Sprintf("op %d: a second Close / a Read after EOF on a finished message did not return", i), res
			}
			if e1 == nil || e2 == nil || n != 0 {
				return fmt.Sprintf("op %d: using a finished writer/reader again returned n=%d, %v, %v", i, n, e1, e2), res
			}
			res.Stale = true
		}
		if o.Kind == "write" {
			wireSeen++
		}
		e.sleep(o.Pause)
	}
	res.NonTrivial = cancelledAfterInteresting
	if !res.During {
		if m := roundTrip("end"); m != "" {
			return m, res
		}
		e.sleep(2 * time.Hour) // every delayed cancellation and deadline has fired by now
		if m := roundTrip("two hours later"); m != "" {
			return m, res
		}
		if cl, _ := lc.Lib.Closed(); cl {
			return "the connection was closed although every call had succeeded before its context ended", res
		}
	}
	if ps := e.Panics(); len(ps) > 0 {
		return "library panicked: " + ps[0], res
	}
	return "", res
}

func TestC10(t *testing.T) {
	rec := evid.For("C10")
	rec.Rule = "rapid-generated programs of 3-10 operations {read of a message with 1-4 fragments, optional interleaved control frames, optional compression, in a quarter of the reads a Ping from the peer in front of the message while the peer takes no bytes for 0/300ms/2s so that the Pong leaves late; write of 0..70000 bytes; Ping with the Pong delayed 0/1ms/2s and a reader running beside it; a Write whose deadline (1ms/100ms/3s) expires while it WAITS for another goroutine's open Writer message, followed by a third Write with a live context that must keep waiting, with the frames on the wire checked}, each with its OWN context: already cancelled before the call (last op only; afterwards Write and Read probes with live contexts must return at once), cancelled 0/1ms/1s/1h after the call returned, or a deadline of 5s/1h that expires later, or (last op only) cancelled / expiring DURING the call while synctest.Wait() confirms it is blocked in a header read, payload read, between fragments, a frame write against a zero window, waiting for a withheld Pong, a read that took in an unsolicited Pong while another goroutine's Ping is stuck in the transport, or a Ping queued behind such a stuck Ping; pauses between ops let timers fire; both roles, with and without compression, in virtual time. Non-trivial: >=1 context ended after a successful multi-frame / control-interleaved / ping operation that is followed by a further operation. distinct = hash(mode, op shapes, context kinds and delays)."
	checkProp(t, func(rt *rapid.T) {
		c := genC10(rt)
		var msg string
		var res c10Result
		rapid.SyncTest(rt, func(rt *rapid.T) { msg, res = runC10(rt, c) })
		shape := c.Mode.Name
		classes := []string{"mode:" + c.Mode.Name}
		for _, o := range c.Ops {
			shape += fmt.Sprintf("|%s/%d/%d/%v/%v/%s/%v/%s", o.Kind, lenClass(o.Len), o.Frags, o.CtlInside, o.Compressed, o.Ctx, o.Delay, o.Block)
			classes = append(classes, "ctx:"+o.Ctx)
			if o.Ctx == "cancel-during" || o.Ctx == "deadline-during" {
				classes = append(classes, "during:"+o.Kind+"/"+o.Block)
			}
		}
		if res.SharedCtx {
			classes = append(classes, "blocked-call-shares-its-context-with-the-successful-call-before-it")
		}
		if res.LockWait {
			classes = append(classes, "write-gave-up-waiting-for-an-open-message")
		}
		if res.Before {
			classes = append(classes, "context-cancelled-before-the-call")
		}
		if res.Stale {
			classes = append(classes, "finished-writer-or-reader-used-again-after-cancellation")
		}
		rec.Case(res.NonTrivial || res.LockWait || res.Before || res.Stale, shape, classes...)
		if rec.WantSample() {
			rec.Sample(fmt.Sprintf("%+v", c))
		}
		if msg != "" {
			rt.Fatalf("C10 %+v: %s", c, msg)
		}
	})
}

var _ = synctest.Wait

// TestC10AfterRefusal: "a context bounds only its own call". Our Close frame is out and the peer
// takes 3 s to answer it; in between the application (or the reader, answering a Ping of the
// peer) attempts one more frame under a context of its own. That frame is refused - nothing may
// follow a Close frame - and the call returns. Its context ending afterwards (cancelled by the
// application; released by the library for its own Pong) must leave the connection alone:
// the close handshake completes when the peer's Close frame arrives, not before, and Close
// returns nil. No compression (a message writer refused in the middle of a message is another
// matter). Enumerated: role x what is attempted x when its context ends.
func TestC10AfterRefusal(t *testing.T) {
	rec := evid.For("C10")
	for _, client := range []bool{false, true} {
		for _, what := range []string{"write", "ping", "peer-ping", "write+ping"} {
			for _, cancelAfter := range []time.Duration{0, 200 * time.Millisecond, time.Second} {
				desc := fmt.Sprintf("afterrefusal|client=%v|%s|cancel+%v", client, what, cancelAfter)
				var msg string
				synctest.Test(t, func(t *testing.T) {
					e := newEnv(t)
					defer e.Teardown()
					lc, err := e.open(connSpec{Client: client})
					if err != nil {
						msg = "handshake: " + err.Error()
						return
					}
					p := lc.Peer
					t0 := time.Now()
					p.onFrame = func(f ref.Frame) {
						if f.Opcode == ref.OpClose {
							pl := f.Payload
							e.Go(func() {
								if e.sleep(3 * time.Second) {
									p.send(ref.Frame{Fin: true, Opcode: ref.OpClose, Payload: pl})
								}
							})
						}
					}
					p.start(e)
					var cerr error
					cd := e.Call(func() { cerr = lc.C.Close(websocket.StatusNormalClosure, "bye") })
					e.sleep(time.Second)
					ctx, cancel := context.WithCancel(context.Background())
					defer cancel()
					var d []<-chan struct{}
					if strings.Contains(what, "write") {
						d = append(d, e.Call(func() { lc.C.Write(ctx, websocket.MessageText, []byte("too late")) }))
					}
					if strings.HasSuffix(what, "ping") && what != "peer-ping" {
						d = append(d, e.Call(func() { lc.C.Ping(ctx) }))
					}
					if what == "peer-ping" {
						p.send(ref.Frame{Fin: true, Opcode: ref.OpPing, Payload: []byte("still there?")})
					}
					e.sleep(cancelAfter)
					cancel()
					for _, x := range d {
						if !within(x, 10*time.Second) {
							msg = "the refused call did not return"
							return
						}
					}
					if !within(cd, 20*time.Second) {
						msg = "Close did not return"
						return
					}
					closed, at := lc.Lib.Closed()
					if !closed {
						msg = "the connection was not closed after the handshake"
						return
					}
					if early := t0.Add(3 * time.Second).Sub(at); early > 0 {
						msg = fmt.Sprintf("the transport was closed %v before the peer's Close frame was due (at +%v): a frame attempted after our Close frame was refused, and the end of ITS context tore the connection down in the middle of the close handshake (Close returned %v)", early, at.Sub(t0), cerr)
						return
					}
					if cerr != nil {
						msg = fmt.Sprintf("the peer echoed the Close frame after 3 s but Close returned %v", cerr)
					}
				})
				rec.Case(true, desc, "frame-refused-after-our-close-frame-then-its-context-ends")
				if msg != "" {
					failCase(t, "C10", desc, "%s", msg)
				}
			}
		}
	}
}
