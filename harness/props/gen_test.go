package props

import (
	"fmt"

	"pgregory.net/rapid"
	"verif/harness/ref"
)

// Content kinds for generated payloads. The recipe (kind, seed, length) is what
// rapid draws and shrinks; the bytes are expanded deterministically.
const (
	ckRandom = iota
	ckPattern
	ckText
	ckZero
	ckLongRepeat
	ckHeadRandom // ~300 random bytes, then zeros: the first 64 KiB deflate block comes out as one 240-byte piece
	numContentKinds
)

func expand(kind int, seed uint64, n int) []byte {
	b := make([]byte, n)
	x := seed*2862933555777941757 + 3037000493
	next := func() uint64 {
		x ^= x << 13
		x ^= x >> 7
		x ^= x << 17
		return x
	}
	switch kind {
	case ckRandom:
		for i := range b {
			if i%8 == 0 {
				next()
			}
			b[i] = byte(x >> (8 * (uint(i) % 8)))
		}
	case ckPattern:
		period := 1 + int(next()%37)
		pat := make([]byte, period)
		for i := range pat {
			pat[i] = byte(next() >> 16)
		}
		for i := range b {
			b[i] = pat[i%period]
		}
	case ckText:
		words := []string{"alpha ", "beta ", "gamma ", "{\"key\":", "\"value\"},", "websocket ", "0123456789 ", "the quick brown fox ", "é", "日本 "}
		i := 0
		for i < n {
			w := words[next()%uint64(len(words))]
			i += copy(b[i:], w)
		}
	case ckZero:
	case ckHeadRandom:
		for i := 0; i < n && i < 300; i++ {
			if i%8 == 0 {
				next()
			}
			b[i] = byte(x >> (8 * (uint(i) % 8)))
		}
	case ckLongRepeat:
		// a random block repeated at a distance beyond the 32 KiB window
		blk := 40000
		if n < 2*blk {
			blk = n/2 + 1
		}
		for i := 0; i < blk && i < n; i++ {
			if i%8 == 0 {
				next()
			}
			b[i] = byte(x >> (8 * (uint(i) % 8)))
		}
		for i := blk; i < n; i++ {
			b[i] = b[i-blk]
		}
	}
	return b
}

// tagged fills a payload whose every byte is a function of (conn, msg, offset),
// so any 8 consecutive bytes identify their origin (C05/C07 provenance tags).
func tagged(conn, msg, n int) []byte {
	b := make([]byte, n)
	for i := range b {
		switch i % 8 {
		case 0:
			b[i] = 0xC0 | byte(conn&0x1f)
		case 1:
			b[i] = byte(msg)
		case 2:
			b[i] = byte(msg >> 8)
		case 3:
			b[i] = byte(i >> 3)
		case 4:
			b[i] = byte(i >> 11)
		case 5:
			b[i] = byte(i >> 19)
		case 6:
			b[i] = byte(conn*31 + msg*7 + i>>3)
		case 7:
			b[i] = 0x5A ^ byte(conn)
		}
	}
	return b
}

// taggedRepeat is tagged(conn, 0, n) with only the first 8 bytes naming the
// message: consecutive messages of one connection share almost all their
// content, so a sender that keeps its LZ77 window refers back into the previous
// message, and a receiver that lost or swapped its window cannot inflate it.
func taggedRepeat(conn, msg, n int) []byte {
	b := tagged(conn, 0, n)
	copy(b, tagged(conn, msg, min(n, 8)))
	return b
}

var boundaryLens = []int{0, 1, 2, 124, 125, 126, 127, 128, 4094, 4095, 4096, 4097, 4098, 8190, 8191, 8192, 8193, 8194, 32767, 32768, 32769, 65535, 65536, 65537}

// genLen draws a message length: half boundary values, half uniform.
func genLen(rt *rapid.T, max int, label string) int {
	if rapid.Bool().Draw(rt, label+"Boundary") {
		var ok []int
		for _, l := range boundaryLens {
			if l <= max {
				ok = append(ok, l)
			}
		}
		return rapid.SampledFrom(ok).Draw(rt, label)
	}
	return rapid.IntRange(0, max).Draw(rt, label)
}

// splitSizes draws a fragmentation of n bytes into up to maxParts parts (parts
// may be empty).
func splitSizes(rt *rapid.T, n, maxParts int, label string) []int {
	parts := rapid.IntRange(1, maxParts).Draw(rt, label+"Parts")
	if parts == 1 {
		return []int{n}
	}
	cuts := make([]int, parts-1)
	for i := range cuts {
		cuts[i] = rapid.IntRange(0, n).Draw(rt, label+"Cut")
	}
	// insertion sort
	for i := 1; i < len(cuts); i++ {
		for j := i; j > 0 && cuts[j] < cuts[j-1]; j-- {
			cuts[j], cuts[j-1] = cuts[j-1], cuts[j]
		}
	}
	out := make([]int, 0, parts)
	prev := 0
	for _, c := range cuts {
		out = append(out, c-prev)
		prev = c
	}
	out = append(out, n-prev)
	return out
}

// inMsg is one generated inbound (peer -> library) message.
type inMsg struct {
	Text       bool
	Kind       int
	Seed       uint64
	Len        int
	Compressed bool
	Variant    ref.DeflateVariant
	Frags      []int // sizes of the frames' payloads (over the raw, possibly compressed bytes)
	EmptyRun   int   // >0: that many empty continuation frames were inserted in a row
	// Controls[i] lists control frames placed before fragment i (len = len(Frags)+1; last = after the message).
	Controls [][]ref.Frame

	payload []byte // expanded
	raw     []byte // what goes into the frames
}

func (m inMsg) String() string {
	if m.EmptyRun > 0 {
		return fmt.Sprintf("{text=%v kind=%d len=%d comp=%v/%v frags=%d incl. a run of %d empty}", m.Text, m.Kind, m.Len, m.Compressed, m.Variant, len(m.Frags), m.EmptyRun)
	}
	return fmt.Sprintf("{text=%v kind=%d len=%d comp=%v/%v frags=%v}", m.Text, m.Kind, m.Len, m.Compressed, m.Variant, m.Frags)
}

type inStreamOpts struct {
	Deflate   bool // negotiated
	Takeover  bool // the peer may (and does) keep its window
	MaxMsgs   int
	MaxLen    int
	MaxFrags  int
	Controls  bool // interleave ping/pong frames
	JSONish   bool // payloads are JSON numbers/arrays (for wsjson observation)
	AllowBFin bool
	EmptyRuns bool // now and then a run of 20-300 empty continuation frames
}

func genControl(rt *rapid.T, label string) ref.Frame {
	op := rapid.SampledFrom([]byte{ref.OpPing, ref.OpPing, ref.OpPong}).Draw(rt, label+"Op")
	n := rapid.SampledFrom([]int{0, 1, 2, 5, 64, 124, 125}).Draw(rt, label+"Len")
	seed := rapid.Uint64().Draw(rt, label+"Seed")
	return ref.Frame{Fin: true, Opcode: op, Payload: expand(ckRandom, seed, n)}
}

// genInStream draws a list of inbound messages and renders the frames a
// conforming foreign sender would emit for them (masking is left to the peer).
func genInStream(rt *rapid.T, o inStreamOpts) ([]inMsg, []ref.Frame) {
	n := rapid.IntRange(1, o.MaxMsgs).Draw(rt, "nMsgs")
	msgs := make([]inMsg, n)
	var frames []ref.Frame
	def := ref.NewDeflater(o.Takeover)
	for i := range msgs {
		m := &msgs[i]
		m.Text = rapid.Bool().Draw(rt, "text")
		m.Kind = rapid.IntRange(0, numContentKinds-1).Draw(rt, "kind")
		m.Seed = rapid.Uint64().Draw(rt, "seed")
		m.Len = genLen(rt, o.MaxLen, "len")
		if o.JSONish {
			m.payload = jsonishPayload(m.Seed, m.Len)
			m.Len = len(m.payload)
			m.Text = true
		} else {
			m.payload = expand(m.Kind, m.Seed, m.Len)
		}
		if o.Deflate {
			m.Compressed = rapid.IntRange(0, 3).Draw(rt, "compressed") != 0
		}
		m.raw = m.payload
		if m.Compressed {
			nv := int(ref.NumDeflateVariants)
			v := ref.DeflateVariant(rapid.IntRange(0, nv-1).Draw(rt, "variant"))
			if v == ref.DVBFinal && !o.AllowBFin {
				v = ref.DVSync
			}
			m.Variant = v
			m.raw = def.Message(m.payload, v)
		}
		m.Frags = splitSizes(rt, len(m.raw), o.MaxFrags, "frag")
		if o.EmptyRuns && rapid.IntRange(0, 24).Draw(rt, "emptyRun") == 0 {
			// a long run of empty continuation frames inside the message (legal, RFC 6455 5.4)
			run := rapid.SampledFrom([]int{20, 99, 100, 101, 150, 300}).Draw(rt, "emptyRunLen")
			pos := rapid.IntRange(1, len(m.Frags)).Draw(rt, "emptyRunPos")
			fr := append([]int(nil), m.Frags[:pos]...)
			fr = append(fr, make([]int, run)...)
			m.Frags = append(fr, m.Frags[pos:]...)
			m.EmptyRun = run
		}
		m.Controls = make([][]ref.Frame, len(m.Frags)+1)
		if o.Controls {
			for j := range m.Controls {
				if j > 6 && j < len(m.Controls)-2 {
					continue
				}
				k := rapid.SampledFrom([]int{0, 0, 0, 1, 1, 2}).Draw(rt, "nCtl")
				for c := 0; c < k; c++ {
					m.Controls[j] = append(m.Controls[j], genControl(rt, "ctl"))
				}
			}
		}
		off := 0
		for j, sz := range m.Frags {
			frames = append(frames, m.Controls[j]...)
			f := ref.Frame{Fin: j == len(m.Frags)-1, Payload: m.raw[off : off+sz]}
			if j == 0 {
				f.Opcode = ref.OpBinary
				if m.Text {
					f.Opcode = ref.OpText
				}
				f.Rsv1 = m.Compressed
			}
			frames = append(frames, f)
			off += sz
		}
		frames = append(frames, m.Controls[len(m.Frags)]...)
	}
	return msgs, frames
}

// jsonishPayload renders a JSON document of roughly n bytes whose truncation is
// visible: a long number, or an array of numbers.
func jsonishPayload(seed uint64, n int) []byte {
	if n < 1 {
		n = 1
	}
	if seed%2 == 0 || n < 6 {
		b := make([]byte, n)
		for i := range b {
			b[i] = byte('1' + (seed+uint64(i)*7)%9)
		}
		return b
	}
	out := []byte{'['}
	i := uint64(0)
	for len(out) < n-4 {
		out = append(out, []byte(fmt.Sprintf("%d,", 10+(seed+i*13)%9990))...)
		i++
	}
	out = append(out, []byte("7]")...)
	return out
}

// drawChunks draws a transport chunking for n bytes.
func drawChunks(rt *rapid.T, n int) (kind string, sizes []int) {
	kind = rapid.SampledFrom([]string{"all", "all", "byte", "sizes", "small"}).Draw(rt, "chunking")
	switch kind {
	case "byte":
		sizes = make([]int, n)
		for i := range sizes {
			sizes[i] = 1
		}
	case "sizes":
		k := rapid.IntRange(1, 12).Draw(rt, "nChunks")
		for i := 0; i < k; i++ {
			sizes = append(sizes, rapid.IntRange(1, 2+n/2).Draw(rt, "chunk"))
		}
	case "small":
		for s := 0; s < n; {
			c := 1 + (s*7+3)%5
			sizes = append(sizes, c)
			s += c
		}
	}
	return
}
