package props

import (
	"context"
	"encoding/base64"
	"errors"
	"fmt"
	"io"
	"net/http"
	"os"
	"os/exec"
	"reflect"
	"runtime"
	"sort"
	"strings"
	"sync"
	"testing"
	"time"

	"nhooyr.io/websocket"
	"pgregory.net/rapid"
	"verif/harness/evid"
	"verif/harness/memconn"
	"verif/harness/ref"
	"verif/harness/wsx"
)

// C13 — Dial sends a well-formed handshake and accepts only a valid server response.

type c13Resp struct {
	Status  int
	Conn    []string // Connection header lines (nil = absent)
	Upgr    []string
	Accept  string   // correct | other-key | missing | case-changed | truncated
	Proto   string   // none | requested | requested-case | unrequested | empty
	Ext     []string // Sec-WebSocket-Extensions lines
	ExtKind string
	Muts    []string
}

type c13Case struct {
	Scheme string
	Mode   websocket.CompressionMode
	Protos []string
	Header http.Header
	Host   string
	Resp   c13Resp
}

var c13ExtKinds = []string{"none", "plain", "client_no_ctx", "server_no_ctx", "both", "server_bits_12", "server_bits_15", "server_bits_bad", "unknown-ext", "two-exts", "unknown-param", "client_bits", "client_bits_value", "deflate-plus-other", "x-webkit", "param-with-value", "upper-case-name"}

func c13ExtLines(kind string) []string {
	switch kind {
	case "none":
		return nil
	case "plain":
		return []string{"permessage-deflate"}
	case "client_no_ctx":
		return []string{"permessage-deflate; client_no_context_takeover"}
	case "server_no_ctx":
		return []string{"permessage-deflate; server_no_context_takeover"}
	case "both":
		return []string{"permessage-deflate; client_no_context_takeover; server_no_context_takeover"}
	case "server_bits_12":
		return []string{"permessage-deflate; server_max_window_bits=12"}
	case "server_bits_15":
		return []string{"permessage-deflate; server_max_window_bits=15; server_no_context_takeover"}
	case "server_bits_bad":
		return []string{"permessage-deflate; server_max_window_bits=abc"}
	case "unknown-ext":
		return []string{"x-custom-ext"}
	case "two-exts":
		return []string{"permessage-deflate, permessage-deflate; server_no_context_takeover"}
	case "unknown-param":
		return []string{"permessage-deflate; frobnicate"}
	case "client_bits":
		return []string{"permessage-deflate; client_max_window_bits"}
	case "client_bits_value":
		return []string{"permessage-deflate; client_max_window_bits=10"}
	case "deflate-plus-other":
		return []string{"permessage-deflate", "x-other"}
	case "x-webkit":
		return []string{"x-webkit-deflate-frame"}
	case "param-with-value":
		return []string{"permessage-deflate; server_no_context_takeover=1"}
	case "upper-case-name":
		return []string{"Permessage-Deflate"}
	}
	return nil
}

// c13ExtVerdict: may a client that offered per mode accept this response? "ok", "bad" or "either".
func c13ExtVerdict(kind string, mode websocket.CompressionMode) string {
	exts := ref.ParseExtensions(c13ExtLines(kind))
	if len(exts) == 0 {
		return "ok"
	}
	if mode == websocket.CompressionDisabled {
		return "bad" // nothing was offered
	}
	if len(exts) > 1 || exts[0].Name != "permessage-deflate" {
		if len(exts) == 1 && strings.EqualFold(exts[0].Name, "permessage-deflate") {
			return "either" // extension names compared case-sensitively or not
		}
		return "bad"
	}
	verdict := "ok"
	for _, p := range exts[0].Params {
		switch p.Name {
		case "client_no_context_takeover", "server_no_context_takeover":
			if p.HasValue {
				return "bad"
			}
		case "server_max_window_bits":
			if !p.HasValue {
				return "bad"
			}
			if _, ok := ref.WindowBits(p.Value); !ok {
				verdict = "either" // malformed value of a parameter that only restricts the server
			}
		default:
			return "bad" // client_max_window_bits was not offered; anything else is unknown
		}
	}
	return verdict
}

func genC13(rt *rapid.T) c13Case {
	var c c13Case
	c.Scheme = rapid.SampledFrom([]string{"ws", "wss", "http", "https"}).Draw(rt, "scheme")
	c.Mode = rapid.SampledFrom(c01Modes).Draw(rt, "mode")
	for i := rapid.IntRange(0, 3).Draw(rt, "nProtos"); i > 0; i-- {
		c.Protos = append(c.Protos, rapid.SampledFrom([]string{"chat", "superchat", "v1.json", "Echo"}).Draw(rt, "proto"))
	}
	c.Header = http.Header{}
	if rapid.Bool().Draw(rt, "customHeaders") {
		c.Header.Set("X-Custom", "v1")
		c.Header.Add("Cookie", "a=b")
		c.Header.Set("Authorization", "Bearer tok")
	}
	if rapid.IntRange(0, 3).Draw(rt, "overridden") == 0 {
		c.Header.Set("Connection", "close")
		c.Header.Set("Upgrade", "h2c")
		c.Header.Set("Sec-WebSocket-Version", "8")
		c.Header.Set("Sec-WebSocket-Key", "AAAA")
	}
	if rapid.IntRange(0, 2).Draw(rt, "hostOverride") == 0 {
		c.Host = "override.example:8443"
	}
	if rapid.IntRange(0, 3).Draw(rt, "hostAmongHeaders") == 0 {
		// a Host entry among the caller's headers (copied from an incoming request by a proxy, say): net/http
		// takes the request's host from Request.Host, never from the header map, so it decides nothing -
		// the Host that is sent is still DialOptions.Host, or the URL's
		c.Header.Set("Host", "header.example")
	}
	if rapid.IntRange(0, 3).Draw(rt, "spellings") == 0 {
		// the caller's map holds one header name under several spellings: every value is sent
		c.Header["X-Trace"] = []string{"a"}
		c.Header["x-trace"] = []string{"b"}
		if rapid.Bool().Draw(rt, "threeSpellings") {
			c.Header["X-TRACE"] = []string{"c", "d"}
		}
	}
	if rapid.IntRange(0, 3).Draw(rt, "callerProtoHeader") == 0 {
		// a Sec-WebSocket-Protocol entry in the caller's header: replaced on the wire when Subprotocols are given
		c.Header.Set("Sec-WebSocket-Protocol", "legacy, header-only")
	}
	r := &c.Resp
	r.Status, r.Conn, r.Upgr, r.Accept, r.Proto, r.ExtKind = 101, []string{"Upgrade"}, []string{"websocket"}, "correct", "none", "none"
	// benign
	switch rapid.IntRange(0, 4).Draw(rt, "benign") {
	case 1:
		r.Conn = []string{"keep-alive, upgrade"}
	case 2:
		r.Upgr = []string{"WebSocket"}
	case 3:
		r.Conn, r.Upgr = []string{"keep-alive", "UPGRADE"}, []string{"h2c", "websocket"}
	}
	if len(c.Protos) > 0 && rapid.Bool().Draw(rt, "selectProto") {
		r.Proto = "requested"
	}
	if c.Mode != websocket.CompressionDisabled {
		r.ExtKind = rapid.SampledFrom([]string{"none", "plain", "client_no_ctx", "server_no_ctx", "both", "server_bits_12", "server_bits_15"}).Draw(rt, "extOK")
	}
	k := rapid.SampledFrom([]int{0, 0, 1, 1, 1, 1, 2}).Draw(rt, "nMutations")
	for i := 0; i < k; i++ {
		f := rapid.SampledFrom([]string{"status", "conn", "upgr", "accept", "proto", "ext"}).Draw(rt, "field")
		var how string
		switch f {
		case "status":
			r.Status = rapid.SampledFrom([]int{200, 204, 301, 400, 426, 500, 100, 102}).Draw(rt, "status")
			how = fmt.Sprint(r.Status)
		case "conn":
			how = rapid.SampledFrom([]string{"keep-alive", "", "<absent>", "upgrades", "close"}).Draw(rt, "connBad")
			if how == "<absent>" {
				r.Conn = nil
			} else {
				r.Conn = []string{how}
			}
		case "upgr":
			how = rapid.SampledFrom([]string{"h2c", "", "<absent>", "websocket2", "web socket"}).Draw(rt, "upgrBad")
			if how == "<absent>" {
				r.Upgr = nil
			} else {
				r.Upgr = []string{how}
			}
		case "accept":
			how = rapid.SampledFrom([]string{"other-key", "missing", "case-changed", "truncated", "padding-bits-1", "padding-bits-2", "padding-bits-3", "unpadded", "url-alphabet-or-doubled"}).Draw(rt, "acceptBad")
			r.Accept = how
		case "proto":
			how = rapid.SampledFrom([]string{"unrequested", "requested-case", "empty", "header-only", "list-with-requested", "requested-then-foreign", "two-lines", "requested-trailing-comma", "requested-leading-comma", "only-commas"}).Draw(rt, "protoBad")
			r.Proto = how
		case "ext":
			how = rapid.SampledFrom(c13ExtKinds).Draw(rt, "extKind")
			r.ExtKind = how
		}
		r.Muts = append(r.Muts, f+"="+how)
	}
	r.Ext = c13ExtLines(r.ExtKind)
	return c
}

type c13Seen struct {
	Req *http.Request
	Key string
}

// c13LastLib is the transport handed to Dial as the 101 response body by the last doC13 call.
var c13LastLib *memconn.End

// c13SilentPeer (TestC13Silent, virtual time): the server says nothing behind its response
// and keeps the connection open.
var c13SilentPeer bool

func doC13(c c13Case) (conn *websocket.Conn, err error, seen c13Seen, respProto string) {
	lib, peer := memconn.Pipe()
	c13LastLib = lib
	// the body ends at once: on a rejected response Dial reads up to 1 KiB of it
	// (for the error message) and would otherwise wait 3 real seconds
	if !c13SilentPeer {
		peer.CloseWrite(nil)
	}
	rt := rtf(func(r *http.Request) (*http.Response, error) {
		seen.Req = r
		seen.Key = r.Header.Get("Sec-WebSocket-Key")
		h := http.Header{}
		for _, v := range c.Resp.Conn {
			h.Add("Connection", v)
		}
		for _, v := range c.Resp.Upgr {
			h.Add("Upgrade", v)
		}
		good := ref.AcceptKey(seen.Key)
		switch c.Resp.Accept {
		case "correct":
			h.Set("Sec-WebSocket-Accept", good)
		case "other-key":
			h.Set("Sec-WebSocket-Accept", ref.AcceptKey("dGhlIHNhbXBsZSBub25jZQ=="))
		case "case-changed":
			h.Set("Sec-WebSocket-Accept", swapCaseAll(good))
		case "truncated":
			h.Set("Sec-WebSocket-Accept", good[:len(good)-2])
		case "padding-bits-1", "padding-bits-2", "padding-bits-3":
			// 20 bytes are 27 characters and one "=": the last character carries two bits that
			// belong to no byte. A value that differs from the right one only there is a
			// different string (a lenient base64 decoder would map it to the same digest)
			const alphabet = "ABCDEFGHIJKLMNOPQRSTUVWXYZabcdefghijklmnopqrstuvwxyz0123456789+/"
			b := []byte(good)
			b[26] = alphabet[strings.IndexByte(alphabet, b[26])^int(c.Resp.Accept[len(c.Resp.Accept)-1]-'0')]
			h.Set("Sec-WebSocket-Accept", string(b))
		case "unpadded":
			h.Set("Sec-WebSocket-Accept", strings.TrimRight(good, "="))
		case "url-alphabet-or-doubled":
			if alt := strings.NewReplacer("+", "-", "/", "_").Replace(good); alt != good {
				h.Set("Sec-WebSocket-Accept", alt)
			} else {
				h.Set("Sec-WebSocket-Accept", good+good)
			}
		}
		switch c.Resp.Proto {
		case "requested":
			respProto = c.Protos[len(c.Protos)-1]
		case "requested-case":
			if len(c.Protos) > 0 {
				respProto = swapCaseAll(c.Protos[0])
			} else {
				respProto = "Chat"
			}
		case "unrequested":
			respProto = "not-asked-for"
		case "header-only":
			respProto = "header-only" // named in the caller's header entry (if there is one), never in Subprotocols
		case "requested-trailing-comma", "requested-leading-comma", "only-commas":
			// a requested name decorated with empty list elements, or nothing but empty elements
			req := "chat"
			if len(c.Protos) > 0 {
				req = c.Protos[0]
			}
			respProto = map[string]string{"requested-trailing-comma": req + ",", "requested-leading-comma": ", " + req, "only-commas": ", ,"}[c.Resp.Proto]
		case "list-with-requested", "requested-then-foreign", "two-lines":
			// a server selects ONE protocol: a list, or two header lines, is not a selection even if a requested name is in it
			req := "chat"
			if len(c.Protos) > 0 {
				req = c.Protos[0]
			}
			switch c.Resp.Proto {
			case "list-with-requested":
				respProto = "not-asked-for, " + req
			case "requested-then-foreign":
				respProto = req + ", not-asked-for"
			default:
				h.Add("Sec-WebSocket-Protocol", "not-asked-for")
				h.Add("Sec-WebSocket-Protocol", req)
			}
		}
		if respProto != "" && c.Resp.Proto != "two-lines" {
			h.Set("Sec-WebSocket-Protocol", respProto)
		}
		if c.Resp.Proto == "empty" {
			h.Set("Sec-WebSocket-Protocol", "")
		}
		for _, v := range c.Resp.Ext {
			h.Add("Sec-WebSocket-Extensions", v)
		}
		var body io.ReadCloser = lib
		return &http.Response{Status: fmt.Sprintf("%d X", c.Resp.Status), StatusCode: c.Resp.Status, Proto: "HTTP/1.1", ProtoMajor: 1, ProtoMinor: 1, Header: h, Body: body, Request: r}, nil
	})
	conn, _, err = websocket.Dial(context.Background(), c.Scheme+"://verif.test:1234/path?q=1", &websocket.DialOptions{
		HTTPClient: &http.Client{Transport: rt}, HTTPHeader: c.Header, Host: c.Host, Subprotocols: c.Protos, CompressionMode: c.Mode,
	})
	return
}

func swapCaseAll(s string) string {
	b := []byte(s)
	for i, ch := range b {
		switch {
		case ch >= 'a' && ch <= 'z':
			b[i] = ch - 32
		case ch >= 'A' && ch <= 'Z':
			b[i] = ch + 32
		}
	}
	if string(b) == s {
		return s + "X"
	}
	return string(b)
}

func checkC13Request(c c13Case, r *http.Request) string {
	if r == nil {
		return "no request was sent"
	}
	if r.Method != "GET" {
		return "method " + r.Method
	}
	wantScheme := map[string]string{"ws": "http", "wss": "https", "http": "http", "https": "https"}[c.Scheme]
	if r.URL.Scheme != wantScheme || r.URL.Host != "verif.test:1234" || r.URL.Path != "/path" || r.URL.RawQuery != "q=1" {
		return fmt.Sprintf("request URL %v", r.URL)
	}
	if !ref.HasToken(r.Header.Values("Connection"), "upgrade") || len(r.Header.Values("Connection")) != 1 {
		return fmt.Sprintf("Connection header %q", r.Header.Values("Connection"))
	}
	if v := r.Header.Values("Upgrade"); len(v) != 1 || !strings.EqualFold(v[0], "websocket") {
		return fmt.Sprintf("Upgrade header %q", v)
	}
	if v := r.Header.Values("Sec-WebSocket-Version"); len(v) != 1 || v[0] != "13" {
		return fmt.Sprintf("Sec-WebSocket-Version %q", v)
	}
	keys := r.Header.Values("Sec-WebSocket-Key")
	if len(keys) != 1 || ref.KeyShape(keys[0]) != "valid" {
		return fmt.Sprintf("Sec-WebSocket-Key %q is not one base64 value of 16 bytes", keys)
	}
	if b, err := base64.StdEncoding.DecodeString(keys[0]); err != nil || len(b) != 16 {
		return "key does not decode to 16 bytes"
	}
	group := func(h http.Header) map[string][]string {
		g := map[string][]string{}
		for k, vs := range h {
			ck := http.CanonicalHeaderKey(k)
			g[ck] = append(g[ck], vs...)
		}
		for _, vs := range g {
			sort.Strings(vs)
		}
		return g
	}
	sent := group(r.Header)
	for k, vs := range group(c.Header) {
		switch k {
		case "Connection", "Upgrade", "Sec-Websocket-Version", "Sec-Websocket-Key":
			continue
		case "Sec-Websocket-Protocol":
			if len(c.Protos) > 0 {
				continue // replaced by Subprotocols, checked below
			}
		}
		if got := sent[k]; fmt.Sprint(got) != fmt.Sprint(vs) {
			return fmt.Sprintf("caller header %s (all spellings): sent %q, want %q", k, got, vs)
		}
	}
	if c.Host != "" && r.Host != c.Host {
		return fmt.Sprintf("Host override %q not applied (Host %q)", c.Host, r.Host)
	}
	if c.Host == "" && r.Host != "" && r.Host != "verif.test:1234" {
		return fmt.Sprintf("no Host override was asked for, but the request goes out with Host %q (URL host verif.test:1234)", r.Host)
	}
	if len(c.Protos) > 0 {
		if got := ref.Tokens(r.Header.Values("Sec-WebSocket-Protocol")); fmt.Sprint(got) != fmt.Sprint(c.Protos) {
			return fmt.Sprintf("subprotocols sent %q, want %q", got, c.Protos)
		}
	} else if len(r.Header.Values("Sec-WebSocket-Protocol")) != 0 && len(c.Header.Values("Sec-WebSocket-Protocol")) == 0 {
		return "Sec-WebSocket-Protocol sent although none requested"
	}
	exts := ref.ParseExtensions(r.Header.Values("Sec-WebSocket-Extensions"))
	switch c.Mode {
	case websocket.CompressionDisabled:
		if len(exts) != 0 {
			return "extension offered although compression is disabled"
		}
	default:
		if len(exts) != 1 || exts[0].Name != "permessage-deflate" {
			return fmt.Sprintf("extension offer %v", exts)
		}
		j := ref.JudgeOffer(exts[0])
		if !j.Honourable {
			return "the library's own offer is malformed: " + j.Why
		}
		wantNoCtx := c.Mode == websocket.CompressionNoContextTakeover
		if j.ClientNoCtx != wantNoCtx || j.ServerNoCtx != wantNoCtx {
			return fmt.Sprintf("offer flags client_no_ctx=%v server_no_ctx=%v for mode %v", j.ClientNoCtx, j.ServerNoCtx, c.Mode)
		}
	}
	return ""
}

// sp13Asked: the subprotocol names that were on the wire in the request.
func sp13Asked(c c13Case) []string {
	if len(c.Protos) > 0 {
		return c.Protos
	}
	return ref.Tokens(c.Header.Values("Sec-WebSocket-Protocol"))
}

func c13Verdict(c c13Case) string {
	r := c.Resp
	if r.Status != 101 {
		return "bad"
	}
	if !ref.HasToken(r.Conn, "upgrade") || !ref.HasToken(r.Upgr, "websocket") {
		return "bad"
	}
	if r.Accept != "correct" {
		return "bad"
	}
	verdict := "ok"
	switch r.Proto {
	case "unrequested", "list-with-requested", "requested-then-foreign", "two-lines":
		return "bad"
	case "requested-trailing-comma", "requested-leading-comma":
		// not a token; a recipient that drops empty list elements (RFC 7230 section 7) reads the requested name.
		// Either way the connection must not report a protocol nobody asked for (checked on the connection).
		if len(c.Protos) == 0 {
			return "bad"
		}
		verdict = "either"
	case "only-commas":
		verdict = "either" // no protocol at all, if empty elements are dropped
	case "header-only":
		if len(c.Protos) > 0 || len(c.Header.Values("Sec-WebSocket-Protocol")) == 0 {
			return "bad" // it was not on the wire: Subprotocols replaced the header entry, or there was none
		}
		verdict = "either" // it was on the wire, but not through Subprotocols
	case "requested-case":
		if len(c.Protos) == 0 {
			return "bad"
		}
		verdict = "either" // differs from a requested protocol only in letter case
		for _, p := range c.Protos {
			if p == swapCaseAll(c.Protos[0]) {
				verdict = "ok"
			}
		}
	}
	switch c13ExtVerdict(r.ExtKind, c.Mode) {
	case "bad":
		return "bad"
	case "either":
		verdict = "either"
	}
	return verdict
}

// TestC13Silent: a server answers with a response that must be rejected and then stays
// silent with the connection open (a 101 hands the raw connection to the caller, so that
// nothing else watches it). Dial is called without any deadline. "Returns an error and no
// connection" includes returning: within 60 s of virtual time here (the tree under test
// takes 3 s to give up reading the body it only wants for its error message).
func TestC13Silent(t *testing.T) {
	rec := evid.For("C13")
	checkProp(t, func(rt *rapid.T) {
		c := genC13(rt)
		if c13Verdict(c) != "bad" {
			// make it a response that is wrong in exactly the drawn way
			c.Resp.Accept = rapid.SampledFrom([]string{"other-key", "missing", "truncated"}).Draw(rt, "silentAcceptBad")
		}
		var msg string
		rapid.SyncTest(rt, func(rt *rapid.T) {
			c13SilentPeer = true
			defer func() { c13SilentPeer = false }()
			var conn *websocket.Conn
			var err error
			done := make(chan struct{})
			go func() {
				defer close(done)
				conn, err, _, _ = doC13(c)
			}()
			if !within(done, 60*time.Second) {
				msg = "Dial did not return within 60 s (virtual) of a response it has to reject: the server stays silent behind it and the caller set no deadline"
				c13LastLib.Close() // lets the Dial end
				<-done
			} else if conn != nil || err == nil {
				msg = fmt.Sprintf("an invalid response was accepted (conn=%v err=%v)", conn != nil, err)
			}
			if conn != nil {
				conn.CloseNow()
			}
			c13LastLib.Close()
		})
		rec.Case(c.Resp.Status == 101, fmt.Sprintf("silent|%d|%s|%v", c.Resp.Status, c.Resp.Accept, c.Resp.Muts), "server-silent-behind-a-rejected-response", fmt.Sprintf("silent-status:%d", c.Resp.Status))
		if msg != "" {
			rt.Fatalf("C13 %+v: %s", c, msg)
		}
	})
}

func TestC13(t *testing.T) {
	rec := evid.For("C13")
	rec.Rule = "rapid draws DialOptions (URL scheme ws/wss/http/https, caller headers incl. ones the library must override, Host override, 0-3 subprotocols, 3 compression modes) observed by a custom RoundTripper, in a quarter of the cases after the same process has accepted a connection with a drawn (mode, offer), and a server response built from a valid one by 0-2 mutations over status {101,200,204,301,400,426,500,100,102}, Connection/Upgrade variants, accept key {correct, for another key, missing, case-changed, truncated, differing only in the two unused bits of the last base64 character, unpadded, URL alphabet or doubled}, subprotocol {none, requested, other case, unrequested, empty}, 17 extension header variants. Independent predicates check the request and decide whether the response may be accepted (ok / bad / either). Keys of 1500 sequential Dials and of 48000 Dials made by 16 goroutines at the same time are pairwise distinct; thorough re-runs that in a second process and requires disjoint sets. Non-trivial: a response valid in all but one respect, or valid with multi-token headers. distinct = hash(options, response)."
	checkProp(t, func(rt *rapid.T) {
		c := genC13(rt)
		hdrBefore := c.Header.Clone()
		if rapid.IntRange(0, 3).Draw(rt, "history") == 0 {
			// process history: the same process has served a handshake before. What Dial
			// sends must be a function of its own options, not of what other endpoints
			// of the process negotiated.
			hm := rapid.SampledFrom(c01Modes).Draw(rt, "historyMode")
			ho := rapid.SampledFrom([]string{"permessage-deflate", "permessage-deflate; client_no_context_takeover; server_no_context_takeover",
				"permessage-deflate; client_no_context_takeover", "permessage-deflate; server_no_context_takeover", "permessage-deflate; client_max_window_bits"}).Draw(rt, "historyOffer")
			if sv, herr := wsx.Accept(wsx.ServerCfg{Mode: hm, Offer: ho}); herr == nil {
				sv.Conn.CloseNow()
				sv.Peer.Close()
			}
		}
		conn, err, seen, _ := doC13(c)
		if conn != nil {
			defer conn.CloseNow()
		}
		verdict := c13Verdict(c)
		msg := checkC13Request(c, seen.Req)
		if msg == "" && !reflect.DeepEqual(c.Header, hdrBefore) {
			msg = fmt.Sprintf("Dial modified the caller's HTTPHeader: before %v, after %v", hdrBefore, c.Header)
		}
		if msg == "" && rapid.IntRange(0, 3).Draw(rt, "reuseHeader") == 0 {
			// the same header map reused for a second Dial that asks for less
			c2 := c
			c2.Protos, c2.Mode = nil, websocket.CompressionDisabled
			c2.Resp = c13Resp{Status: 400, Accept: "correct", Proto: "none", ExtKind: "none"}
			_, _, seen2, _ := doC13(c2)
			if m2 := checkC13Request(c2, seen2.Req); m2 != "" {
				msg = "second Dial reusing the caller's header map: " + m2
			}
		}
		if msg == "" {
			switch {
			case (conn == nil) != (err != nil):
				msg = fmt.Sprintf("Dial returned conn=%v err=%v: exactly one must be set", conn != nil, err)
			case verdict == "ok" && err != nil:
				msg = fmt.Sprintf("a valid response was rejected: %v", err)
			case verdict == "bad" && err == nil:
				msg = "an invalid response was accepted"
			}
			if msg == "" && conn != nil {
				// whatever the response looked like: the connection reports a subprotocol the caller asked for, or none
				sp, asked := conn.Subprotocol(), sp13Asked(c)
				ok := sp == ""
				for _, a := range asked {
					ok = ok || strings.EqualFold(a, sp)
				}
				if !ok {
					msg = fmt.Sprintf("Dial returned a connection whose Subprotocol() is %q; asked for: %q (response kind %s)", sp, asked, c.Resp.Proto)
				}
			}
			if msg == "" && err != nil {
				// "an error and no connection": the transport of the rejected response must not stay open
				if closed, _ := c13LastLib.Closed(); !closed {
					msg = fmt.Sprintf("Dial rejected the response (%v) but left its body - the hijacked connection - open", err)
				}
			}
		} else {
			msg = "request: " + msg
		}
		nt := len(c.Resp.Muts) == 1 || (len(c.Resp.Muts) == 0 && (len(c.Resp.Conn) > 1 || strings.Contains(c.Resp.Conn[0], ",")))
		classes := []string{"verdict:" + verdict, "ext:" + c.Resp.ExtKind, "mode:" + modeName(c.Mode)}
		for _, m := range c.Resp.Muts {
			classes = append(classes, "mut:"+strings.SplitN(m, "=", 2)[0])
		}
		rec.Case(nt, fmt.Sprintf("%+v", c), classes...)
		if rec.WantSample() {
			rec.Sample(fmt.Sprintf("%+v -> err=%v", c, err))
		}
		if msg != "" {
			rt.Fatalf("C13 verdict=%s %+v: %s", verdict, c, msg)
		}
	})
}

func collectKeys(n int) []string {
	var keys []string
	for i := 0; i < n; i++ {
		_, _, seen, _ := doC13(c13Case{Scheme: "ws", Header: http.Header{}, Resp: c13Resp{Status: 400, Accept: "correct", Proto: "none", ExtKind: "none"}})
		keys = append(keys, seen.Key)
	}
	return keys
}

// c13KeyRecorder is an http.RoundTripper that notes the key of every request and fails it.
type c13KeyRecorder struct {
	mu   sync.Mutex
	keys []string
}

func (k *c13KeyRecorder) RoundTrip(r *http.Request) (*http.Response, error) {
	k.mu.Lock()
	k.keys = append(k.keys, r.Header.Get("Sec-WebSocket-Key"))
	k.mu.Unlock()
	return nil, errors.New("c13KeyRecorder: no network")
}

// TestC13Keys: a fresh random key per attempt.
func TestC13Keys(t *testing.T) {
	rec := evid.For("C13")
	if os.Getenv("VERIF_C13_PRINT_KEYS") == "1" {
		for _, k := range collectKeys(200) {
			fmt.Println("KEY", k)
		}
		return
	}
	keys := collectKeys(1500)
	seen := map[string]bool{}
	for _, k := range keys {
		if ref.KeyShape(k) != "valid" {
			t.Fatalf("C13: key %q is not 16 base64-encoded bytes", k)
		}
		if seen[k] {
			failCase(t, "C13", map[string]any{"duplicate_key": k}, "the same Sec-WebSocket-Key was sent by two Dial attempts")
		}
		seen[k] = true
	}
	rec.Case(true, "keys|1500", "key-freshness")
	rec.Evals(1499)
	// attempts that overlap in time (real parallelism: a synctest bubble or one P would serialise them):
	// 16 goroutines x 3000 attempts through a transport that only records the key
	if runtime.GOMAXPROCS(0) < 4 {
		defer runtime.GOMAXPROCS(runtime.GOMAXPROCS(4))
	}
	rt := &c13KeyRecorder{}
	var wg sync.WaitGroup
	for g := 0; g < 16; g++ {
		wg.Add(1)
		go func() {
			defer wg.Done()
			for i := 0; i < 3000; i++ {
				conn, _, err := websocket.Dial(context.Background(), "ws://keys.example.test/", &websocket.DialOptions{HTTPClient: &http.Client{Transport: rt}})
				if err == nil {
					conn.CloseNow()
				}
			}
		}()
	}
	wg.Wait()
	par := map[string]bool{}
	for _, k := range rt.keys {
		if ref.KeyShape(k) != "valid" {
			t.Fatalf("C13: key %q (concurrent attempts) is not 16 base64-encoded bytes", k)
		}
		if par[k] || seen[k] {
			failCase(t, "C13", map[string]any{"duplicate_key_concurrent_attempts": k, "attempts": len(rt.keys)}, "the same Sec-WebSocket-Key was sent by two Dial attempts (16 goroutines dialling at the same time)")
		}
		par[k] = true
	}
	if len(rt.keys) != 16*3000 {
		t.Fatalf("C13: %d of %d concurrent attempts reached the transport", len(rt.keys), 16*3000)
	}
	rec.Case(true, "keys|concurrent|48000", "key-freshness-concurrent-attempts")
	rec.Evals(int64(len(rt.keys)))
	if evid.Thorough() || os.Getenv("VERIF_C13_SECOND_PROCESS") == "1" {
		cmd := exec.Command(os.Args[0], "-test.run", "^TestC13Keys$", "-test.timeout", "60s")
		cmd.Env = append(os.Environ(), "VERIF_C13_PRINT_KEYS=1", "VERIF_OUT=", "VERIF_C13_SECOND_PROCESS=0", "VERIF_TIER=quick")
		out, err := cmd.CombinedOutput()
		if err != nil {
			t.Logf("second process failed: %v", err)
			return
		}
		n := 0
		for _, l := range strings.Split(string(out), "\n") {
			if strings.HasPrefix(l, "KEY ") {
				n++
				if seen[strings.TrimPrefix(l, "KEY ")] {
					failCase(t, "C13", map[string]any{"repeated_across_processes": l}, "a second process generated the same key: fixed-seed generator")
				}
			}
		}
		rec.Case(true, fmt.Sprintf("keys|second-process|%d", n), "key-freshness-across-processes")
	}
}
