package props

import (
	"os"
	"testing"

	"pgregory.net/rapid"
)

// checkProp is rapid.Check - except while FuzzGen is taking a test's property out of it.
// Every generated property of this package goes through it, so each of them can be driven
// by rapid's own random search (the quick and thorough stages) and, unchanged - same
// generators, same oracle - by Go's coverage-guided fuzzer (thorough stages "fuzz-gen").
var captureProp *func(*rapid.T)

func checkProp(t *testing.T, prop func(*rapid.T)) {
	t.Helper()
	if captureProp != nil {
		if *captureProp == nil {
			*captureProp = prop
		}
		return
	}
	rapid.Check(t, prop)
}

// fuzzGenTests: the tests whose (single) generated property FuzzGen can drive.
var fuzzGenTests = map[string]func(*testing.T){
	"TestC01": TestC01, "TestC02": TestC02, "TestC03": TestC03, "TestC03Raw": TestC03Raw, "TestC04": TestC04, "TestC04Big": TestC04Big,
	"TestC05": TestC05, "TestC06Mixed": TestC06Mixed, "TestC07": TestC07, "TestC08": TestC08, "TestC09Mixed": TestC09Mixed,
	"TestC10": TestC10, "TestC11": TestC11, "TestC11Server": TestC11Server, "TestC12": TestC12, "TestC13": TestC13, "TestC13Silent": TestC13Silent,
	"TestC14ServerLists": TestC14ServerLists, "TestC14Interleaved": TestC14Interleaved, "TestC14SharedHeader": TestC14SharedHeader,
	"TestC15": TestC15, "TestC15Inbound": TestC15Inbound, "TestC16": TestC16, "TestC18": TestC18, "TestC18Deadlines": TestC18Deadlines,
	"TestC19": TestC19, "TestC19Write": TestC19Write, "TestC20": TestC20,
}

// FuzzGen drives the generated property of the test named by VERIF_FUZZ_TEST with
// Go's native fuzzer: the fuzzer's bytes are the choice sequence of the rapid
// generators (rapid.MakeFuzz), so coverage feedback from the instrumented library steers
// the same structured generators towards library code their random walk reaches rarely.
// The oracle is the property's own. A failing input is an ordinary corpus file; it
// replays with the same VERIF_FUZZ_TEST (./check <ID> replay <file>).
// underFuzzEngine: the property runs as a native fuzz target. The engine allows an input 10 s of wall
// time and kills the worker of one that takes longer, so generators keep their most expensive
// combinations (millions of one-byte reads) for the rapid stages.
var underFuzzEngine bool

func FuzzGen(f *testing.F) {
	underFuzzEngine = true
	name := os.Getenv("VERIF_FUZZ_TEST")
	test := fuzzGenTests[name]
	if test == nil {
		f.Skip("VERIF_FUZZ_TEST does not name a generated property")
	}
	// seed corpus: choice sequences long enough for complete cases (8 bytes per draw)
	for i := 0; i < 18; i++ {
		b := make([]byte, 256<<(i%6))
		fillBytes(b, uint64(i)*0x9e3779b97f4a7c15+1)
		if i%3 == 2 {
			// small choices: every draw near the low end of its range (short programs, first alternatives)
			for j := range b {
				if j%8 != 0 {
					b[j] = 0
				} else {
					b[j] &= 7
				}
			}
		}
		f.Add(b)
	}
	f.Fuzz(func(t *testing.T, data []byte) {
		if len(data) > 1<<16 {
			t.Skip()
		}
		var prop func(*rapid.T)
		captureProp = &prop
		test(t)
		captureProp = nil
		if prop == nil {
			t.Fatalf("harness: %s did not hand over a property", name)
		}
		rapid.MakeFuzz(prop)(t, data)
	})
}
