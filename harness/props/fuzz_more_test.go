package props

import (
	"fmt"
	"regexp"
	"strings"
	"testing"
	"testing/synctest"
)

// FuzzC19: coverage-guided search over the BYTES of JSON documents (the rapid generator
// builds documents from a JSON grammar and mangles them in four ways; the fuzzer is free
// to produce any byte string). The first three bytes select connection mode, decoding
// target, framing and compression; the rest is split into two documents that are read
// one after the other on one connection. The oracle is runC19Reads': encoding/json on the
// same bytes decides accept/reject and the value; a rejected document must close the
// connection with status 1007; an earlier result must survive the later read.
func FuzzC19(f *testing.F) {
	for _, s := range []string{`{"a":1}`, `[1,2,{"b":[null,true,"x"]}]`, `"é😀"`, `{"a":1}{"b":2}`, `{"a":1} x`, `nul`, `{"N":1e400}`, `"\ud800"`, `{"A":1,"a":2}`, ` 1 `, `{"raw":{"k":[1,2,3]}}`, "\xff\xfe", `"` + string(make([]byte, 40)) + `"`} {
		for k := 0; k < 3; k++ {
			f.Add(append([]byte{byte(k * 3), byte(k), byte(len(s) / 2)}, s+s...))
		}
	}
	targets := []string{"any", "struct", "raw", "bytes", "string", "map", "slice"}
	shapes := []string{"one", "two", "empty-fin"}
	f.Fuzz(func(t *testing.T, data []byte) {
		if len(data) < 4 || len(data) > 1<<15 {
			t.Skip()
		}
		mode := c03Modes[int(data[0])%len(c03Modes)]
		sel, split := int(data[1]), int(data[2])
		body := data[3:]
		if split > len(body) {
			split = len(body)
		}
		docs := [][]byte{body[:split], body[split:]}
		c := c19Case{Mode: mode, Conns: 1}
		for i, d := range docs {
			if len(d) == 0 {
				continue
			}
			c.Reads = append(c.Reads, c19Read{Conn: 0, Doc: d, Target: targets[(sel+i*3)%len(targets)], Shape: shapes[(sel/7+i)%len(shapes)],
				Compress: (sel>>(6+i))&1 == 1, OwnCtx: (sel>>5)&1 == 1, depth: 2})
		}
		if len(c.Reads) == 0 {
			t.Skip()
		}
		var msg string
		synctest.Test(t, func(t *testing.T) { msg, _ = runC19Reads(t, c, false) })
		if msg != "" {
			t.Fatalf("C19 fuzz mode=%s reads=%s: %s", mode.Name, c19Desc(c), msg)
		}
	})
}

// FuzzC17: the masking definition against arbitrary CONTENT, key, alignment and two split
// points (the grid of TestC17 enumerates lengths x alignments x keys over pseudo-random
// content). Every implementation, whole and in pieces, two- and three-index slices.
func FuzzC17(f *testing.F) {
	f.Add([]byte("hello, world"), uint32(0x04030201), uint8(0), uint16(3), uint16(7))
	f.Add(make([]byte, 129), uint32(0xffffffff), uint8(63), uint16(64), uint16(128))
	f.Add([]byte{1, 2, 3}, uint32(0), uint8(5), uint16(1), uint16(2))
	ar := newC17Arena()
	f.Fuzz(func(t *testing.T, content []byte, key uint32, align uint8, s1, s2 uint16) {
		if len(content) > 4200 {
			t.Skip()
		}
		n := len(content)
		for _, im := range maskImpls() {
			for _, open := range []bool{false, true} {
				var splits []int
				if n > 0 {
					a, b := int(s1)%(n+1), int(s2)%(n+1)
					if a > b {
						a, b = b, a
					}
					splits = []int{a, b}
				}
				for _, sp := range [][]int{nil, splits} {
					start := ar.base + 128 + int(align%64)
					want, wantKey := c17Oracle(content, key)
					lo, hi := start-c17Guard, start+n+c17Guard
					for i := lo; i < hi; i++ {
						ar.raw[i] = byte(0xa5 ^ i)
					}
					copy(ar.raw[start:], content)
					buf := ar.raw[start : start+n : start+n]
					if open {
						buf = ar.raw[start : start+n]
					}
					k, prev := key, 0
					for _, s := range append(append([]int(nil), sp...), n) {
						if open {
							k = im.f(buf[prev:s], k)
						} else {
							k = im.f(buf[prev:s:s], k)
						}
						prev = s
					}
					desc := fmt.Sprintf("impl=%s len=%d align=%d key=%#08x splits=%v openCap=%v", im.name, n, align%64, key, sp, open)
					for i := 0; i < n; i++ {
						if buf[i] != want[i] {
							t.Fatalf("C17 fuzz %s: byte %d: got %#x want %#x", desc, i, buf[i], want[i])
						}
					}
					if k != wantKey {
						t.Fatalf("C17 fuzz %s: returned key %#08x want %#08x", desc, k, wantKey)
					}
					for i := lo; i < hi; i++ {
						if (i < start || i >= start+n) && ar.raw[i] != byte(0xa5^i) {
							t.Fatalf("C17 fuzz %s: byte %d outside the buffer was modified", desc, i-start)
						}
					}
				}
			}
		}
	})
}

var c14Canonical = regexp.MustCompile(`^permessage-deflate(; ?(client_no_context_takeover|server_no_context_takeover|server_max_window_bits=(8|9|1[0-5])))*$`)

// FuzzC14: coverage-guided search over the TEXT of Sec-WebSocket-Extensions values - offers sent to
// the server, responses sent to the client - where the enumerations and rapid lists of TestC14* draw
// from fixed alphabets. Printable ASCII, as net/http delivers header values (surrounding blanks
// trimmed). The oracles are the existing ones and one-sided on purpose: server - compression agreed
// => some offer in the text can be honoured in full under a lenient reading and the answer is legal
// for it (declining is always sound); client - a response with an extension or parameter the client
// did not offer or cannot honour under ANY reading is rejected; "a response the client can honour was
// rejected" is only demanded of canonically spelled responses. After every successful handshake the
// six-message exchange runs with the reference peer applying the parameters as RFC 7692 reads them.
func FuzzC14(f *testing.F) {
	for _, h := range append(append([]string{}, c14Params...), c14RespParams...) {
		f.Add(uint8(1), true, "permessage-deflate; "+h)
		f.Add(uint8(2), false, "permessage-deflate; "+h)
	}
	for _, h := range []string{"", "permessage-deflate", "permessage-deflate, permessage-deflate; client_no_context_takeover", "x-webkit-deflate-frame, permessage-deflate", "permessage-deflate;client_max_window_bits=\"10\"", "permessage-deflate ; server_no_context_takeover ;", "Permessage-Deflate; Server_No_Context_Takeover", "permessage-deflate; server_max_window_bits = 15", ",,permessage-deflate;;"} {
		f.Add(uint8(0), true, h)
		f.Add(uint8(1), false, h)
	}
	f.Fuzz(func(t *testing.T, m uint8, server bool, text string) {
		if len(text) > 300 {
			t.Skip()
		}
		for i := 0; i < len(text); i++ {
			if text[i] < 0x20 || text[i] > 0x7e {
				t.Skip()
			}
		}
		text = strings.TrimSpace(text)
		mode := c01Modes[int(m)%len(c01Modes)]
		c14NoHistory = true
		var msg string
		if server {
			synctest.Test(t, func(t *testing.T) {
				msg, _ = runC14Server(t, c14ServerCase{Mode: mode, Offers: []string{text}, Lines: true})
			})
		} else {
			synctest.Test(t, func(t *testing.T) { msg, _ = runC14Client(t, c14ClientCase{Mode: mode, Resp: text}) })
			if strings.HasPrefix(msg, "a response the client can honour") && !c14Canonical.MatchString(text) {
				msg = "" // an unusual spelling: rejecting it is a matter of taste
			}
		}
		if msg != "" {
			t.Fatalf("C14 fuzz server=%v mode=%s header %q: %s", server, modeName(mode), text, msg)
		}
	})
}
