package props

import (
	"bytes"
	"context"
	"encoding/hex"
	"errors"
	"fmt"
	"io"
	"os"
	"runtime"
	"strings"
	"testing"
	"testing/synctest"
	"time"

	"nhooyr.io/websocket"
	"pgregory.net/rapid"
	"verif/harness/evid"
	"verif/harness/ref"
)

// C03 — inbound frame streams decode exactly; violations are rejected; never a panic.

type readMsg struct {
	Typ  websocket.MessageType
	Data []byte
	EOF  bool // ended with a clean io.EOF
}

type readTrace struct {
	Msgs     []readMsg // complete messages and, last, a partial one (EOF=false) if any
	FinalErr error
	After    []readMsg // messages delivered by reads that came after the first failed read (there must be none)
}

// c03PerMsgCtx (set per case; cases run one at a time): every message is read under a
// context of its own, which the application releases as soon as the message is complete.
// The context of a finished read must not matter to the connection any more.
var c03PerMsgCtx bool

// readAllMsgs reads messages with Reader + Read loops until the first error - and then
// does what an application that retries does: it asks for the next message, twice. A read
// that has failed has lost its place in the stream (or the stream has ended), so nothing
// may be delivered any more; what is delivered all the same is recorded in After.
func readAllMsgs(conn *websocket.Conn, bufSize func() int, maxMsgs int) (tr readTrace) {
	defer func() {
		if tr.FinalErr == nil {
			return
		}
		for i := 0; i < 2; i++ {
			ctx, cancel := context.WithTimeout(context.Background(), 20*time.Second)
			typ, b, err := conn.Read(ctx)
			cancel()
			if err == nil {
				tr.After = append(tr.After, readMsg{Typ: typ, Data: b, EOF: true})
			}
		}
	}()
	return readAllMsgs1(conn, bufSize, maxMsgs)
}

func readAllMsgs1(conn *websocket.Conn, bufSize func() int, maxMsgs int) readTrace {
	var tr readTrace
	ctx := context.Background()
	release := func() {}
	perMsg := c03PerMsgCtx
	defer func() { release() }()
	for len(tr.Msgs) < maxMsgs {
		if perMsg {
			release()
			if len(tr.Msgs) > 0 {
				time.Sleep(time.Millisecond) // (virtual) whoever watches the released context has had its turn
			}
			ctx, release = context.WithCancel(context.Background())
		}
		if bufSize() < 0 {
			// Conn.Read: the whole message at once (what it hands back together with an error counts as delivered)
			typ, b, err := conn.Read(ctx)
			if err != nil {
				if len(b) > 0 {
					tr.Msgs = append(tr.Msgs, readMsg{Typ: typ, Data: b})
				}
				tr.FinalErr = err
				return tr
			}
			tr.Msgs = append(tr.Msgs, readMsg{Typ: typ, Data: b, EOF: true})
			continue
		}
		typ, r, err := conn.Reader(ctx)
		if err != nil {
			tr.FinalErr = err
			return tr
		}
		m := readMsg{Typ: typ}
		for {
			buf := make([]byte, bufSize())
			n, err := r.Read(buf)
			m.Data = append(m.Data, buf[:n]...)
			if err == io.EOF {
				m.EOF = true
				break
			}
			if err != nil {
				tr.Msgs = append(tr.Msgs, m)
				tr.FinalErr = err
				return tr
			}
		}
		tr.Msgs = append(tr.Msgs, m)
	}
	return tr
}

type c03Mode struct {
	Name   string
	Client bool
	Mode   websocket.CompressionMode
	Ext    string
}

// The ways the harness obtains each (role, peer->library compression) setting
// through the real handshake.
var c03Modes = []c03Mode{
	{"server/off", false, websocket.CompressionDisabled, ""},
	{"client/off", true, websocket.CompressionDisabled, ""},
	{"server/takeover", false, websocket.CompressionContextTakeover, "permessage-deflate"},
	{"server/client_no_ctx-offer", false, websocket.CompressionContextTakeover, "permessage-deflate; client_no_context_takeover"},
	{"server/mode-no-ctx", false, websocket.CompressionNoContextTakeover, "permessage-deflate"},
	{"client/takeover", true, websocket.CompressionContextTakeover, "permessage-deflate"},
	{"client/server_no_ctx-resp", true, websocket.CompressionContextTakeover, "permessage-deflate; server_no_context_takeover"},
	{"client/mode-no-ctx", true, websocket.CompressionNoContextTakeover, "permessage-deflate; client_no_context_takeover; server_no_context_takeover"},
	{"client/takeover-client_no_ctx-resp", true, websocket.CompressionContextTakeover, "permessage-deflate; client_no_context_takeover"},
}

// violation kinds injected into otherwise valid streams.
var c03Violations = []string{
	"rsv2", "rsv3", "rsv1-illegal", "reserved-opcode", "wrong-mask", "control-too-long", "control-fragmented",
	"sequence", "top-bit-length", "close-1byte", "close-badcode", "valid-close", "non-minimal", "huge-declared",
}

type c03Stream struct {
	Mode    c03Mode
	Frames  []ref.Frame // final frames, masking set
	Msgs    []inMsg
	Inject  []string
	Chunk   string
	Sizes   []int
	BufSize int
	Limit   int64
}

func openMsgAt(frames []ref.Frame, pos int) bool {
	open := false
	for _, f := range frames[:pos] {
		if f.IsControl() {
			continue
		}
		open = !f.Fin
	}
	return open
}

func insertFrame(frames []ref.Frame, pos int, f ref.Frame) []ref.Frame {
	out := make([]ref.Frame, 0, len(frames)+1)
	out = append(out, frames[:pos]...)
	out = append(out, f)
	out = append(out, frames[pos:]...)
	return out
}

// injectViolation applies one violation kind at pos. flip lists frames whose
// masking must be the opposite of what the role requires.
func injectViolation(rt *rapid.T, frames []ref.Frame, kind string, pos int, deflate bool) ([]ref.Frame, string) {
	ping := ref.Frame{Fin: true, Opcode: ref.OpPing, Payload: []byte("v")}
	open := openMsgAt(frames, pos)
	switch kind {
	case "rsv2", "rsv3":
		var f ref.Frame
		if pos < len(frames) {
			f = frames[pos]
			frames = append(frames[:pos:pos], frames[pos+1:]...)
		} else {
			f = ping
		}
		if kind == "rsv2" {
			f.Rsv2 = true
		} else {
			f.Rsv3 = true
		}
		f.HideFrame = rapid.Bool().Draw(rt, "hideFrameInPayload")
		return insertFrame(frames, pos, f), kind
	case "rsv1-illegal":
		if open {
			// RSV1 on a continuation frame
			return insertFrame(frames, pos, ref.Frame{Rsv1: true, Opcode: ref.OpCont, Payload: []byte("c")}), "rsv1-on-continuation"
		}
		if !deflate {
			return insertFrame(frames, pos, ref.Frame{Fin: true, Rsv1: true, Opcode: ref.OpText, Payload: []byte("x")}), "rsv1-not-negotiated"
		}
		p := ping
		p.Rsv1 = true
		return insertFrame(frames, pos, p), "rsv1-on-control"
	case "reserved-opcode":
		op := rapid.SampledFrom([]byte{3, 4, 5, 6, 7, 0xB, 0xC, 0xD, 0xE, 0xF}).Draw(rt, "reservedOp")
		return insertFrame(frames, pos, ref.Frame{Fin: rapid.Bool().Draw(rt, "rfin"), Opcode: op, Payload: []byte("zz"), HideFrame: rapid.Bool().Draw(rt, "hideFrameInPayload")}), kind
	case "wrong-mask":
		var f ref.Frame
		if pos < len(frames) {
			f = frames[pos]
			frames = append(frames[:pos:pos], frames[pos+1:]...)
		} else {
			f = ping
		}
		f.LenBytes = -1 // marker: flip masking (resolved by finishMasking)
		f.HideFrame = rapid.Bool().Draw(rt, "hideFrameInPayload")
		return insertFrame(frames, pos, f), kind
	case "control-too-long":
		op := rapid.SampledFrom([]byte{ref.OpPing, ref.OpPong, ref.OpClose}).Draw(rt, "longOp")
		n := rapid.SampledFrom([]int{126, 127, 200, 65536}).Draw(rt, "longLen")
		pl := expand(ckPattern, uint64(n), n)
		if op == ref.OpClose {
			copy(pl, ref.ClosePayload(1000, ""))
		}
		return insertFrame(frames, pos, ref.Frame{Fin: true, Opcode: op, Payload: pl, HideFrame: rapid.Bool().Draw(rt, "hideFrameInPayload")}), kind
	case "control-fragmented":
		op := rapid.SampledFrom([]byte{ref.OpPing, ref.OpPong, ref.OpClose}).Draw(rt, "fragOp")
		pl := []byte("frag")
		if op == ref.OpClose {
			pl = ref.ClosePayload(1000, "")
		}
		return insertFrame(frames, pos, ref.Frame{Fin: false, Opcode: op, Payload: pl}), kind
	case "sequence":
		if open {
			return insertFrame(frames, pos, ref.Frame{Fin: rapid.Bool().Draw(rt, "sfin"), Opcode: ref.OpText, Payload: []byte("new message inside")}), "data-inside-open-message"
		}
		return insertFrame(frames, pos, ref.Frame{Fin: rapid.Bool().Draw(rt, "sfin"), Opcode: ref.OpCont, Payload: []byte("orphan continuation")}), "continuation-without-message"
	case "huge-declared":
		// a legal header announcing 2^40..2^62 bytes, of which three arrive before the stream ends
		// (always the last frame: everything behind it would be its payload)
		v := uint64(1) << uint(rapid.SampledFrom([]int{40, 48, 56, 62}).Draw(rt, "hugeBits"))
		v += uint64(rapid.IntRange(0, 1<<20).Draw(rt, "hugeLow"))
		op := byte(ref.OpBinary)
		if openMsgAt(frames, len(frames)) {
			op = ref.OpCont
		}
		return append(frames, ref.Frame{Fin: true, Opcode: op, Payload: []byte("abc"), DeclaredLen: &v, Truncated: true}), kind
	case "top-bit-length":
		v := uint64(1)<<63 | uint64(rapid.IntRange(0, 1<<30).Draw(rt, "hugeLow"))
		op := byte(ref.OpBinary)
		if open {
			op = ref.OpCont
		}
		return insertFrame(frames, pos, ref.Frame{Fin: true, Opcode: op, Payload: []byte("abc"), DeclaredLen: &v}), kind
	case "close-1byte":
		return insertFrame(frames, pos, ref.Frame{Fin: true, Opcode: ref.OpClose, Payload: []byte{0x03}}), kind
	case "close-badcode":
		code := rapid.SampledFrom([]int{0, 999, 1004, 1005, 1006, 1015, 1016, 2999, 5000, 65535}).Draw(rt, "badCode")
		return insertFrame(frames, pos, ref.Frame{Fin: true, Opcode: ref.OpClose, Payload: ref.ClosePayload(code, "bad")}), kind
	case "valid-close":
		code := rapid.SampledFrom([]int{1000, 1001, 1011, 3000, 4999, -1}).Draw(rt, "closeCode")
		var pl []byte
		if code >= 0 {
			pl = ref.ClosePayload(code, "bye")
		}
		return insertFrame(frames, pos, ref.Frame{Fin: true, Opcode: ref.OpClose, Payload: pl}), kind
	case "non-minimal":
		var f ref.Frame
		if pos < len(frames) {
			f = frames[pos]
			frames = append(frames[:pos:pos], frames[pos+1:]...)
		} else {
			f = ping
		}
		if len(f.Payload) < 126 {
			f.LenBytes = rapid.SampledFrom([]int{2, 8}).Draw(rt, "nmBytes")
		} else if len(f.Payload) <= 0xffff {
			f.LenBytes = 8
		} else {
			return insertFrame(frames, pos, f), "none"
		}
		f.NonMinimal = true
		return insertFrame(frames, pos, f), kind
	}
	return frames, "none"
}

// hiddenText is the payload of the frame hidden inside a violating frame's payload (ref.Frame.HideFrame).
const hiddenText = "HIDDEN: nobody sent this as a message"

// finishMasking gives every frame the masking its sender role requires (or the
// opposite where a violation asked for it) and returns the encoded stream and
// the offset at which each frame ends.
func finishMasking(frames []ref.Frame, libIsClient bool) ([]ref.Frame, []byte, []int) {
	var out []byte
	ends := make([]int, len(frames))
	key := uint32(0x9e3779b9)
	for i := range frames {
		f := &frames[i]
		want := !libIsClient
		if f.LenBytes == -1 {
			want = !want
			f.LenBytes = 0
		}
		f.Masked = want
		if want {
			key = key*1664525 + 1013904223
			f.Key = [4]byte{byte(key), byte(key >> 8), byte(key >> 16), byte(key >> 24)}
		}
		if f.HideFrame && f.DeclaredLen == nil {
			// the payload's wire bytes spell a valid text frame (padded with further empty
			// text frames): a receiver that reads on behind this frame's header finds a message
			hid := ref.Frame{Fin: true, Opcode: ref.OpText, Payload: []byte(hiddenText), Masked: !libIsClient, Key: [4]byte{7, 7, 7, 7}}.Encode()
			wire := append([]byte(nil), hid...)
			for len(wire) < len(f.Payload) {
				wire = append(wire, ref.Frame{Fin: true, Opcode: ref.OpText, Masked: !libIsClient, Key: [4]byte{9, 9, 9, 9}}.Encode()...)
			}
			if f.Masked {
				ref.MaskBytes(wire, f.Key, 0) // Encode masks again: the wire shows the frames
			}
			f.Payload = wire
		}
		out = append(out, f.Encode()...)
		ends[i] = len(out)
	}
	return frames, out, ends
}

func drawBufSize(rt *rapid.T) int {
	return rapid.SampledFrom([]int{1, 2, 7, 64, 512, 4096, 32768, 100000, -1, -1}).Draw(rt, "readBuf") // -1: Conn.Read
}

// compareRecv checks a read trace and the library's outbound frames against the
// reference receiver's expectation. intended[i] (if non-nil) is the full payload
// message i would have had, used for the prefix check on a failed message.
func compareRecv(ex ref.RecvExpect, tr readTrace, out []ref.Frame, intended [][]byte) string {
	if len(tr.After) > 0 {
		a := tr.After[0]
		what := fmt.Sprintf("%d bytes", len(a.Data))
		if len(a.Data) <= 60 {
			what = fmt.Sprintf("%q", a.Data)
		}
		return fmt.Sprintf("a read failed (%v) and the next Read on the connection delivered a message all the same (%s): after a failed read the receiver has lost its place in the stream - the rest of a rejected frame's payload is taken for frames", tr.FinalErr, what)
	}
	complete := 0
	for _, m := range tr.Msgs {
		if m.EOF {
			complete++
		}
	}
	for i, m := range tr.Msgs {
		if !m.EOF && i != len(tr.Msgs)-1 {
			return "harness: partial message not last"
		}
	}
	want := ex.Messages
	if complete < len(want) {
		return fmt.Sprintf("delivered %d complete messages, the reference receiver delivers %d (final error: %v)", complete, len(want), tr.FinalErr)
	}
	if complete > len(want) && !ex.Unspecified {
		return fmt.Sprintf("delivered %d complete messages but the reference receiver delivers only %d (violation: %q)", complete, len(want), ex.Violation)
	}
	for i := range want {
		g := tr.Msgs[i]
		if int(g.Typ) != int(want[i].Type) {
			return fmt.Sprintf("message %d: type %d, want %d", i, g.Typ, want[i].Type)
		}
		if !bytes.Equal(g.Data, want[i].Payload) {
			return fmt.Sprintf("message %d: payload differs (got %d bytes, want %d; first difference at %d)", i, len(g.Data), len(want[i].Payload), firstDiff(g.Data, want[i].Payload))
		}
	}
	if !ex.Unspecified {
		// partial message: bytes handed out must be a prefix of the intended payload
		if len(tr.Msgs) > len(want) {
			p := tr.Msgs[len(want)]
			if p.EOF {
				return "harness: unexpected complete message"
			}
			if len(want) < len(intended) && intended[len(want)] != nil {
				if !bytes.HasPrefix(intended[len(want)], p.Data) {
					return fmt.Sprintf("bytes returned before the failure are not a prefix of the message (%d bytes returned)", len(p.Data))
				}
			} else if ex.PartialOpen && !ex.PartialComp {
				if !bytes.HasPrefix(ex.Partial, p.Data) {
					return fmt.Sprintf("bytes returned before the failure are not a prefix of the fragments received (%d bytes returned)", len(p.Data))
				}
			} else if !ex.PartialOpen && len(p.Data) > 0 {
				return fmt.Sprintf("%d bytes delivered for a message the reference receiver never started", len(p.Data))
			}
		}
		if tr.FinalErr == nil {
			return "read loop ended without an error"
		}
	}
	// Pongs
	var pongs [][]byte
	var closes [][]byte
	for _, f := range out {
		switch f.Opcode {
		case ref.OpPong:
			pongs = append(pongs, f.Payload)
		case ref.OpClose:
			closes = append(closes, f.Payload)
		}
	}
	if len(pongs) < len(ex.Pongs) {
		return fmt.Sprintf("library sent %d Pongs, the reference receiver answers %d Pings", len(pongs), len(ex.Pongs))
	}
	if len(pongs) > len(ex.Pongs) && !ex.Unspecified {
		return fmt.Sprintf("library sent %d Pongs but only %d Pings precede the failure point", len(pongs), len(ex.Pongs))
	}
	for i := range ex.Pongs {
		if !bytes.Equal(pongs[i], ex.Pongs[i]) {
			return fmt.Sprintf("Pong %d payload %x, want %x", i, pongs[i], ex.Pongs[i])
		}
	}
	if ex.GotClose && !ex.Unspecified {
		var ce websocket.CloseError
		// The CloseError is promised for a read at a message boundary (C06); a
		// Close frame in the middle of a message only has to fail the read.
		if !ex.PartialOpen {
			if !errors.As(tr.FinalErr, &ce) {
				return fmt.Sprintf("valid Close frame received at a message boundary but the read error %v is not a CloseError", tr.FinalErr)
			}
			if int(ce.Code) != ex.CloseCode || ce.Reason != ex.CloseReason {
				return fmt.Sprintf("CloseError{%d,%q}, want {%d,%q}", ce.Code, ce.Reason, ex.CloseCode, ex.CloseReason)
			}
		}
		if len(closes) == 0 {
			return "valid Close frame was not echoed"
		}
		if !bytes.Equal(closes[0], ex.ClosePay) {
			return fmt.Sprintf("Close echo payload %x, want %x", closes[0], ex.ClosePay)
		}
	}
	if ex.Violation != "" && !ex.Unspecified {
		// The reference receiver rejects the stream at a violation, so the library
		// cannot have legitimately accepted a Close frame: a CloseError would mean
		// it took a malformed Close payload (or something after the violation) for
		// a valid one.
		var ce websocket.CloseError
		if errors.As(tr.FinalErr, &ce) {
			return fmt.Sprintf("read reported CloseError{%d,%q} although the stream is rejected first (%s)", ce.Code, ce.Reason, ex.Violation)
		}
		for _, cp := range closes {
			if len(cp) == 1 {
				return "library sent a one-byte Close payload"
			}
			if len(cp) >= 2 {
				if cc, _, ok := ref.ParseClose(cp); !ok {
					return fmt.Sprintf("library sent a Close frame with unsendable code %d", cc)
				}
			}
		}
	}
	return ""
}

func firstDiff(a, b []byte) int {
	n := len(a)
	if len(b) < n {
		n = len(b)
	}
	for i := 0; i < n; i++ {
		if a[i] != b[i] {
			return i
		}
	}
	return n
}

// runC03 feeds an encoded inbound stream to a fresh library connection.
// c03Pause: the peer goes quiet for D (virtual time) after the first Off bytes of the stream.
type c03Pause struct {
	Off int
	D   time.Duration
	// Early (server role): the first Early bytes of the stream arrive together with the handshake request.
	Early int
	// PerMsgCtx: see c03PerMsgCtx
	PerMsgCtx bool
}

func runC03(t fataler, mode c03Mode, frames []ref.Frame, stream []byte, sizes []int, maxRead int, bufSize int, limit int64, intended [][]byte, pause ...c03Pause) string {
	e := newEnv(t)
	defer e.Teardown()
	spec := connSpec{Client: mode.Client, Mode: mode.Mode, Ext: mode.Ext}
	if len(pause) > 0 && pause[0].Early > 0 && !mode.Client {
		early := pause[0].Early
		if early > len(stream) {
			early = len(stream)
		}
		spec.Pipelined = stream[:early]
		stream = stream[early:]
		if pause[0].Off -= early; pause[0].Off < 0 {
			// the quiet period would fall inside the pipelined part, i.e. possibly inside a frame:
			// a control frame delayed for longer than 5 s is rightly failed
			pause[0].Off, pause[0].D = 0, 0
		}
	}
	lc, err := e.open(spec)
	if err != nil {
		return "handshake: " + err.Error()
	}
	takeover := lc.Agreed.SenderTakeover(!mode.Client)
	ex := ref.Receive(frames, ref.RecvOpts{LibIsClient: mode.Client, Deflate: lc.Agreed.Deflate, Takeover: takeover})
	lc.C.SetReadLimit(limit)
	lc.Peer.start(e)
	if maxRead > 0 {
		lc.End.SetPeerMaxRead(maxRead)
	}
	if len(pause) > 0 && pause[0].D > 0 && pause[0].Off <= len(stream) {
		// the reader below sits in one Read / Reader call for the whole pause
		pz := pause[0]
		e.Go(func() {
			lc.End.WriteChunks(stream[:pz.Off], sizes)
			if !e.sleep(pz.D) {
				return
			}
			lc.End.WriteChunks(stream[pz.Off:], nil)
			lc.End.CloseWrite(nil)
		})
	} else {
		lc.End.WriteChunks(stream, sizes)
		lc.End.CloseWrite(nil)
	}
	var tr readTrace
	c03PerMsgCtx = len(pause) > 0 && pause[0].PerMsgCtx
	defer func() { c03PerMsgCtx = false }()
	done := e.Call(func() {
		tr = readAllMsgs(lc.C, func() int { return bufSize }, len(frames)+2)
	})
	if !within(done, 300*time.Second) {
		return "read loop did not terminate within 300 s (virtual) although the transport ended"
	}
	if ps := e.Panics(); len(ps) > 0 {
		return "library panicked: " + ps[0]
	}
	lc.C.CloseNow()
	lc.Peer.waitEOF(30 * time.Second)
	out, _ := lc.Peer.snapshot()
	return compareRecv(ex, tr, out, intended)
}

func TestC03(t *testing.T) {
	rec := evid.For("C03")
	rec.Rule = "rapid-generated inbound streams from an independent encoder: 1-5 messages with drawn fragmentation (incl. empty fragments, runs of 20-300 empty continuation frames, cuts inside compressed payloads), foreign deflater variants (sync, BFINAL=1+00, stored, multi-flush, levels), interleaved Ping/Pong at every position, 0-2 injected violations or a valid Close, non-minimal lengths (comparison stops there), over 9 (role, negotiated compression) settings obtained through the real handshake, transport chunking down to 1 byte, in a quarter of the cases a quiet period of 6 or 20 s (virtual) before a drawn frame while the reader waits, in a quarter of the server cases the beginning of the stream pipelined with the handshake request, read through Reader with buffer sizes 1..100000 or through Conn.Read; compared with the reference receiver. Non-trivial: a control frame inside a fragmented message, or an injected violation/Close, or a compressed message in >=2 fragments. distinct = hash(mode, frame shape sequence, violation kinds, chunking kind)."
	checkProp(t, func(rt *rapid.T) {
		mode := rapid.SampledFrom(c03Modes).Draw(rt, "mode")
		deflate := mode.Mode != websocket.CompressionDisabled
		takeover := deflate && (mode.Name == "server/takeover" || mode.Name == "client/takeover" || mode.Name == "client/takeover-client_no_ctx-resp")
		msgs, frames := genInStream(rt, inStreamOpts{Deflate: deflate, Takeover: takeover, MaxMsgs: 5, MaxLen: 9000, MaxFrags: 4, Controls: true, AllowBFin: true, EmptyRuns: true})
		nInj := rapid.SampledFrom([]int{0, 0, 1, 1, 1, 2}).Draw(rt, "nInject")
		var kinds []string
		hugeLast := false
		for i := 0; i < nInj; i++ {
			k := rapid.SampledFrom(c03Violations).Draw(rt, "violation")
			if k == "huge-declared" {
				hugeLast = true // goes in behind everything else: whatever follows it would be its payload
				continue
			}
			pos := rapid.IntRange(0, len(frames)).Draw(rt, "pos")
			var got string
			frames, got = injectViolation(rt, frames, k, pos, deflate)
			kinds = append(kinds, got)
		}
		if hugeLast {
			var got string
			frames, got = injectViolation(rt, frames, "huge-declared", len(frames), deflate)
			kinds = append(kinds, got)
		}
		frames, stream, ends := finishMasking(frames, mode.Client)
		chunk, sizes := drawChunks(rt, len(stream))
		buf := drawBufSize(rt)
		var pause c03Pause
		if len(ends) > 0 && rapid.IntRange(0, 3).Draw(rt, "quietPeriod") == 0 {
			// the peer goes quiet for longer than any of the library's internal timeouts, at a frame boundary
			k := rapid.IntRange(0, len(ends)-1).Draw(rt, "quietBeforeFrame")
			if k > 0 {
				pause.Off = ends[k-1]
			}
			pause.D = rapid.SampledFrom([]time.Duration{6 * time.Second, 20 * time.Second}).Draw(rt, "quietFor")
		}
		if !mode.Client && len(stream) > 0 && rapid.IntRange(0, 3).Draw(rt, "pipelined") == 0 {
			// the beginning of the stream arrives in the same segment as the handshake request
			pause.Early = rapid.SampledFrom([]int{1, 2, 6, 7, len(stream) / 2, len(stream)}).Draw(rt, "pipelinedBytes")
		}
		pause.PerMsgCtx = rapid.IntRange(0, 2).Draw(rt, "contextPerMessage") == 0
		limit := rapid.SampledFrom([]int64{-1, 1 << 20}).Draw(rt, "limit")
		intended := make([][]byte, len(msgs))
		for i := range msgs {
			intended[i] = msgs[i].payload
		}
		if nInj > 0 {
			intended = nil // message indices shift when frames are injected
		}
		var msg string
		rapid.SyncTest(rt, func(rt *rapid.T) {
			msg = runC03(rt, mode, frames, stream, sizes, 0, buf, limit, intended, pause)
		})
		// classification
		ctlInside, compFrag := false, false
		shape := mode.Name + "|" + chunk
		for _, m := range msgs {
			if len(m.Frags) >= 2 {
				for j := 1; j < len(m.Controls)-1; j++ {
					if len(m.Controls[j]) > 0 {
						ctlInside = true
					}
				}
				if m.Compressed {
					compFrag = true
				}
			}
			shape += fmt.Sprintf("|%v%v%d/%d", m.Compressed, m.Variant, len(m.Frags), lenClass(m.Len))
		}
		for _, k := range kinds {
			shape += "|" + k
		}
		classes := []string{"mode:" + mode.Name, "chunk:" + chunk}
		if pause.D > 0 {
			classes = append(classes, "peer-quiet-for-6s-or-more-before-a-frame")
		}
		if pause.Early > 0 {
			classes = append(classes, "stream-begins-in-the-segment-of-the-handshake-request")
		}
		if pause.PerMsgCtx {
			classes = append(classes, "each-message-read-under-its-own-context-released-afterwards")
		}
		for _, k := range kinds {
			classes = append(classes, "inject:"+k)
		}
		for _, m := range msgs {
			if m.Compressed {
				classes = append(classes, "deflater:"+m.Variant.String())
			}
		}
		if ctlInside {
			classes = append(classes, "control-inside-fragmented")
		}
		if compFrag {
			classes = append(classes, "compressed-fragmented")
		}
		for _, m := range msgs {
			if m.EmptyRun >= 100 && m.Compressed {
				classes = append(classes, ">=100-empty-frames-inside-compressed-message")
				break
			}
		}
		rec.Case(ctlInside || compFrag || nInj > 0, shape, classes...)
		if rec.WantSample() {
			var fs []string
			for _, f := range frames {
				fs = append(fs, fmt.Sprintf("op%x fin=%v rsv1=%v len=%d", f.Opcode, f.Fin, f.Rsv1, len(f.Payload)))
			}
			rec.Sample(map[string]any{"mode": mode.Name, "frames": fs, "inject": kinds, "chunking": chunk, "read_buf": buf})
		}
		if msg != "" {
			rt.Fatalf("C03 mode=%s inject=%v chunk=%s buf=%d: %s\nmsgs=%v", mode.Name, kinds, chunk, buf, msg, msgs)
		}
	})
}

func lenClass(n int) int {
	switch {
	case n == 0:
		return 0
	case n < 126:
		return 1
	case n < 4096:
		return 2
	case n < 65536:
		return 3
	}
	return 4
}

// TestC03Raw: byte strings obtained by mutating a valid stream (flip, insert,
// delete, truncate) and purely random header-biased strings.
func TestC03Raw(t *testing.T) {
	rec := evid.For("C03")
	checkProp(t, func(rt *rapid.T) {
		mode := rapid.SampledFrom(c03Modes).Draw(rt, "mode")
		deflate := mode.Mode != websocket.CompressionDisabled
		takeover := deflate && (mode.Name == "server/takeover" || mode.Name == "client/takeover" || mode.Name == "client/takeover-client_no_ctx-resp")
		var stream []byte
		if rapid.IntRange(0, 4).Draw(rt, "fromValid") > 0 {
			_, frames := genInStream(rt, inStreamOpts{Deflate: deflate, Takeover: takeover, MaxMsgs: 3, MaxLen: 600, MaxFrags: 3, Controls: true, AllowBFin: true})
			_, stream, _ = finishMasking(frames, mode.Client)
			nm := rapid.IntRange(1, 4).Draw(rt, "nMut")
			for i := 0; i < nm && len(stream) > 0; i++ {
				pos := rapid.IntRange(0, len(stream)-1).Draw(rt, "mutPos")
				switch rapid.IntRange(0, 3).Draw(rt, "mutKind") {
				case 0:
					stream[pos] ^= 1 << rapid.IntRange(0, 7).Draw(rt, "bit")
				case 1:
					stream = append(stream[:pos:pos], append([]byte{rapid.Byte().Draw(rt, "ins")}, stream[pos:]...)...)
				case 2:
					stream = append(stream[:pos:pos], stream[pos+1:]...)
				case 3:
					stream = stream[:pos]
				}
			}
		} else {
			n := rapid.IntRange(0, 64).Draw(rt, "rawLen")
			stream = rapid.SliceOfN(rapid.Byte(), n, n).Draw(rt, "raw")
			if n >= 2 && rapid.Bool().Draw(rt, "headerish") {
				stream[0] = rapid.SampledFrom([]byte{0x81, 0x82, 0x01, 0x02, 0x00, 0x80, 0x88, 0x89, 0x8a, 0xc1, 0x41, 0xc2}).Draw(rt, "b0")
				stream[1] = rapid.SampledFrom([]byte{0x00, 0x01, 0x05, 0x7d, 0x7e, 0x7f, 0x80, 0x81, 0x85, 0xfd, 0xfe, 0xff}).Draw(rt, "b1")
			}
		}
		msg := c03RawOne(rt, mode, stream, drawBufSize(rt))
		rec.Case(true, fmt.Sprintf("raw|%s|%x", mode.Name, evidHash(stream)), "raw", "mode:"+mode.Name)
		if msg != "" {
			rt.Fatalf("C03 raw mode=%s stream=%x: %s", mode.Name, stream, msg)
		}
	})
}

func evidHash(b []byte) uint64 {
	h := uint64(14695981039346656037)
	for _, c := range b {
		h ^= uint64(c)
		h *= 1099511628211
	}
	return h
}

// rawFrames parses a raw byte string the way the reference receiver sees it.
func rawFrames(stream []byte) []ref.Frame {
	var frames []ref.Frame
	b := stream
	for len(b) > 0 {
		f, plen, hdr, err := ref.ParseHeader(b)
		if err == ref.ErrShort {
			break
		}
		if err == ref.ErrHugeLen {
			v := plen
			f.DeclaredLen = &v
			frames = append(frames, f)
			break
		}
		if uint64(len(b)-hdr) < plen {
			// the stream ends inside this frame: header-level violations still
			// count, and the payload bytes that did arrive belong to the message
			v := plen
			f.DeclaredLen = &v
			f.Truncated = true
			p := append([]byte(nil), b[hdr:]...)
			if f.Masked {
				ref.MaskBytes(p, f.Key, 0)
			}
			f.Payload = p
			frames = append(frames, f)
			break
		}
		p := append([]byte(nil), b[hdr:hdr+int(plen)]...)
		if f.Masked {
			ref.MaskBytes(p, f.Key, 0)
		}
		f.Payload = p
		frames = append(frames, f)
		b = b[hdr+int(plen):]
	}
	return frames
}

func c03RawOne(rt *rapid.T, mode c03Mode, stream []byte, buf int) string {
	frames := rawFrames(stream)
	var msg string
	rapid.SyncTest(rt, func(rt *rapid.T) {
		msg = runC03(rt, mode, frames, stream, nil, 0, buf, 1<<20, nil)
	})
	return msg
}

// c03Regress: minimal reproductions of defects this check found on the pinned
// tree (see /verif/known_findings.json). They bypass rapid and must pass.
var c03Regress = []struct {
	Name, Mode, Hex string
}{
	{"D4-bfinal-then-next-compressed", "client/takeover", "c106" + "010000ffff00" + "c10100"},
	{"D4-bfinal-trailing-00-in-own-fragment", "client/takeover", "4107" + "f348cdc9c90700" + "800100" + "c10100"},
	{"D4-bfinal-hello-rfc7692", "client/server_no_ctx-resp", "c108" + "f348cdc9c9070000" + "c107" + "f248cdc9c90700"},
	{"D10-close-inside-compressed-fragmented", "client/takeover", "410130" + "880203e8"},
	{"D8-masked-frame-to-client", "client/off", "8185" + "01020304" + "69676f686e"},
	{"D3-eof-inside-payload-nonfinal", "server/off", "018280c4d7d042"},
	{"D3-eof-between-fragments", "server/off", "018180c4d7d0c2"},
	{"D12-partial-payload-still-masked", "server/takeover", "8980c4d7d0428282530026e9d8"},
	// D21: the payload of a rejected frame spells a frame of its own; the read after the failed one must not deliver it
	{"D21-frame-hidden-behind-reserved-opcode", "client/off", "8304" + "81023432"},
	{"D21-frame-hidden-behind-rsv2", "server/off", "a188" + "00000000" + "8182" + "00000000" + "3432"},
	{"D21-frame-hidden-behind-masked-frame-to-client", "client/off", "8184" + "00000000" + "81023432"},
	{"D21-frame-hidden-behind-oversize-ping", "client/off", "897e0080" + "81023432" + "00000000000000000000000000000000000000000000000000000000000000000000000000000000000000000000000000000000000000000000000000000000000000000000000000000000000000000000000000000000000000000000000000000000000000000000000000000000000000000000000000000000"},
}

func TestC03Regress(t *testing.T) {
	for _, rc := range c03Regress {
		if only := os.Getenv("VERIF_REGRESS"); only != "" && only != rc.Name {
			continue
		}
		var mode c03Mode
		for _, m := range c03Modes {
			if m.Name == rc.Mode {
				mode = m
			}
		}
		stream, err := hex.DecodeString(rc.Hex)
		if err != nil || mode.Name == "" {
			t.Fatalf("bad regression entry %s", rc.Name)
		}
		for _, buf := range []int{1, 4096} {
			frames := rawFrames(stream)
			var msg string
			synctest.Test(t, func(t *testing.T) {
				msg = runC03(t, mode, frames, stream, nil, 0, buf, 1<<20, nil)
			})
			evid.For("C03").Case(true, "regress|"+rc.Name+fmt.Sprint(buf), "regression-replay")
			if msg != "" {
				failCase(t, "C03", map[string]any{"regress": rc.Name, "mode": rc.Mode, "hex": rc.Hex, "buf": buf}, "%s", msg)
			}
		}
	}
}

// TestC03Flood: any number of control frames may precede the next data frame.
// The reader has to take them in without its resource use growing with their
// number: a stack that grows per control frame ends in "fatal error: stack
// overflow", which no recover() can catch, after a few million two-byte frames.
// The goroutine's stack is measured right after the Read that swallowed the
// flood returns (stacks shrink only in a later GC cycle, and then by half).
func TestC03Flood(t *testing.T) {
	rec := evid.For("C03")
	type floodCase struct {
		Client bool
		Op     byte
		N      int
		Plen   int
	}
	var cases []floodCase
	for _, client := range []bool{true, false} {
		cases = append(cases, floodCase{client, ref.OpPong, 300000, 0}, floodCase{client, ref.OpPong, 100000, 3}, floodCase{client, ref.OpPing, 30000, 1})
	}
	var rc floodCase
	if replayCase(t, &rc) {
		cases = []floodCase{rc}
	}
	for _, c := range cases {
		var msg string
		synctest.Test(t, func(t *testing.T) {
			e := newEnv(t)
			defer e.Teardown()
			lc, err := e.open(connSpec{Client: c.Client})
			if err != nil {
				msg = "handshake: " + err.Error()
				return
			}
			lc.Peer.start(e)
			one := ref.Frame{Fin: true, Opcode: c.Op, Payload: bytes.Repeat([]byte{'p'}, c.Plen)}
			if c.Client {
				one.Masked = false
			} else {
				one.Masked, one.Key = true, [4]byte{1, 2, 3, 4}
			}
			data := ref.Frame{Fin: true, Opcode: ref.OpText, Payload: []byte("after the flood"), Masked: one.Masked, Key: one.Key}
			stream := append(bytes.Repeat(one.Encode(), c.N), data.Encode()...)
			lc.End.Write(stream)
			lc.End.CloseWrite(nil)
			var before, after runtime.MemStats
			var got []byte
			var rerr error
			done := e.Call(func() {
				runtime.ReadMemStats(&before)
				_, got, rerr = lc.C.Read(context.Background())
				runtime.ReadMemStats(&after)
			})
			if !within(done, 300*time.Second) {
				msg = "Read did not return within 300 s (virtual)"
				return
			}
			if ps := e.Panics(); len(ps) > 0 {
				msg = "library panicked: " + ps[0]
				return
			}
			if rerr != nil || string(got) != "after the flood" {
				msg = fmt.Sprintf("the message after %d control frames was not delivered: %q, %v", c.N, got, rerr)
				return
			}
			if grown := int64(after.StackInuse) - int64(before.StackInuse); grown > 8<<20 {
				msg = fmt.Sprintf("goroutine stacks grew by %d bytes while one Read took in %d control frames (%d bytes per frame): unbounded recursion ends in a fatal stack overflow", grown, c.N, grown/int64(c.N))
			}
		})
		rec.Case(true, fmt.Sprintf("flood|%v|%d|%d|%d", c.Client, c.Op, c.N, c.Plen), "control-frame-flood")
		if msg != "" {
			failCase(t, "C03", c, "%s", msg)
		}
	}
}

// FuzzC03: coverage-guided byte-level search with the differential oracle inside
// the target (thorough tier). The first byte selects the (role, compression)
// setting, the rest is the inbound stream.
func FuzzC03(f *testing.F) {
	for _, rc := range c03Regress {
		b, _ := hex.DecodeString(rc.Hex)
		for i := range c03Modes {
			if c03Modes[i].Name == rc.Mode {
				f.Add(append([]byte{byte(i)}, b...))
			}
		}
	}
	// hostile constants: length markers, sync tail, BFINAL blocks, close payloads
	for _, h := range []string{"007e", "007f", "00ff", "04817e0000", "02827f0000000000010000", "05c1020000ffff", "03c10301000000ffff", "0188020 3e8", "0189007d", "008a00", "0141013088 0203e8"} {
		b, err := hex.DecodeString(strings.ReplaceAll(h, " ", ""))
		if err == nil {
			f.Add(b)
		}
	}
	f.Fuzz(func(t *testing.T, data []byte) {
		if len(data) < 1 || len(data) > 1<<16 {
			t.Skip()
		}
		mode := c03Modes[int(data[0])%len(c03Modes)]
		stream := data[1:]
		frames := rawFrames(stream)
		var msg string
		synctest.Test(t, func(t *testing.T) {
			msg = runC03(t, mode, frames, stream, nil, 0, 1+int(data[0])%97, 1<<20, nil)
		})
		if msg != "" {
			t.Fatalf("C03 fuzz mode=%s stream=%x: %s", mode.Name, stream, msg)
		}
	})
}

// TestC03ForeignWindow: a DEFLATE stream whose very first instruction copies from `distance`
// bytes back - before the first byte this connection has ever received - is corrupt for a
// reference RFC 7692 receiver, which starts every connection with an empty LZ77 window: the
// read fails. An endpoint that hands a new connection the window of an earlier one (the
// process has closed connections with context takeover by then) inflates it "successfully" and
// delivers a message nobody sent - the other connection's plaintext. Enumerated: role x
// distance x how the earlier connection ended.
func TestC03ForeignWindow(t *testing.T) {
	rec := evid.For("C03")
	secret := bytes.Repeat([]byte("SECRET-OF-AN-EARLIER-CONNECTION "), 2100) // 67 KB: fills and slides a 32 KiB window
	for _, modeName := range []string{"server/takeover", "client/takeover"} {
		var mode c03Mode
		for _, m := range c03Modes {
			if m.Name == modeName {
				mode = m
			}
		}
		for _, how := range []string{"closenow", "close", "peer-gone"} {
			for _, dist := range []int{1, 258, 4096, 32768} {
				desc := fmt.Sprintf("foreignwindow|%s|%s|%d", modeName, how, dist)
				var msg string
				synctest.Test(t, func(t *testing.T) {
					e := newEnv(t)
					defer e.Teardown()
					for k := 0; k < 3; k++ { // a few earlier connections, so that the pools hold their leftovers
						a, err := e.open(connSpec{Client: mode.Client, Mode: mode.Mode, Ext: mode.Ext})
						if err != nil {
							msg = "handshake: " + err.Error()
							return
						}
						a.Peer.onFrame = func(f ref.Frame) {
							if f.Opcode == ref.OpClose {
								a.Peer.send(ref.Frame{Fin: true, Opcode: ref.OpClose, Payload: f.Payload})
							}
						}
						a.Peer.start(e)
						a.C.SetReadLimit(1 << 20)
						def := ref.NewDeflater(true)
						a.Peer.send(ref.Frame{Fin: true, Rsv1: true, Opcode: ref.OpText, Payload: def.Message(secret, ref.DVSync)})
						if _, got, err := a.C.Read(context.Background()); err != nil || !bytes.Equal(got, secret) {
							msg = fmt.Sprintf("setup: the earlier connection did not receive its message: %v", err)
							return
						}
						switch how {
						case "closenow":
							a.C.CloseNow()
						case "close":
							a.C.Close(websocket.StatusNormalClosure, "")
						default:
							a.End.Close()
							a.C.Read(context.Background())
							a.C.CloseNow()
						}
					}
					b, err := e.open(connSpec{Client: mode.Client, Mode: mode.Mode, Ext: mode.Ext})
					if err != nil {
						msg = "handshake: " + err.Error()
						return
					}
					b.Peer.start(e)
					b.Peer.send(ref.Frame{Fin: true, Rsv1: true, Opcode: ref.OpText, Payload: ref.CraftBackref(dist)})
					var got []byte
					var rerr error
					d := e.Call(func() { _, got, rerr = b.C.Read(context.Background()) })
					if !within(d, 30*time.Second) {
						msg = "Read did not return"
						return
					}
					if rerr == nil {
						msg = fmt.Sprintf("a compressed message that copies from %d bytes before the start of the connection's stream was delivered (%d bytes: %q...): a reference receiver starts with an empty window and rejects it", dist, len(got), got[:min(40, len(got))])
					} else if bytes.Contains(got, []byte("SECRET")) {
						msg = "the failed read handed out bytes of an earlier connection's message"
					}
				})
				rec.Case(true, desc, "back-reference-before-the-start-of-the-connection")
				if msg != "" {
					failCase(t, "C03", desc, "%s", msg)
				}
			}
		}
	}
}
