package props

import (
	"context"
	"fmt"
	"regexp"
	"runtime"
	"strings"
	"testing"
	"testing/synctest"
	"time"

	"nhooyr.io/websocket"
	"nhooyr.io/websocket/wsjson"
	"pgregory.net/rapid"
	"verif/harness/evid"
	"verif/harness/memconn"
	"verif/harness/ref"
)

// C20 — no goroutine outlives a closed connection.

type c20Case struct {
	Mode   c03Mode
	Ops    []string // read | write | ping | closeread | netconn-rw | netconn-deadline | abandon-reader | abandon-writer | wsjson-write | wsjson-read | cancel-read
	Ending string   // close | closenow | peer-close | violation | read-limit | ctx-expiry | transport-eof | transport-reset | transport-cut-midframe
	Final  string   // Close | CloseNow
	Repeat int
	Echo   string // how the peer answers a Close frame: echo | none | invalid
	// ViaNetConn: NetConn gets an application-defined parent context (for which context.WithCancel needs
	// a goroutine of its own per derived context). NCFinal says whose Close the user's final call is: the
	// net.Conn's own, or (false) the Conn's as for every other case - a server that hands the net.Conn to
	// a library and closes the Conn itself when the request ends.
	ViaNetConn bool
	NCFinal    bool
}

// c20App is the application's context of the case being run: made inside the case's bubble before
// the first repetition, ended after the census of the last.
var c20App appContext

// appContext is a context.Context that the context package does not know: a framework's own type.
type appContext struct{ done chan struct{} }

func (appContext) Deadline() (time.Time, bool) { return time.Time{}, false }
func (c appContext) Done() <-chan struct{}     { return c.done }
func (c appContext) Err() error {
	select {
	case <-c.done:
		return context.Canceled
	default:
		return nil
	}
}
func (appContext) Value(any) any { return nil }

var c20Ops = []string{"read", "write", "ping", "closeread", "netconn-rw", "netconn-deadline", "abandon-reader", "abandon-writer", "wsjson-write", "wsjson-read", "write-big"}
var c20Endings = []string{"close", "closenow", "peer-close", "violation", "read-limit", "ctx-expiry", "transport-eof", "transport-reset", "transport-cut-midframe", "peer-flood", "peer-stalls-in-next-header", "closeread-behind-blocked-writer", "closeread-slow-handshake"}

var libCreated = regexp.MustCompile(`created by nhooyr\.io/websocket[./(]`)

// libGoroutines returns the stacks of goroutines the library started.
func libGoroutines() []string {
	buf := make([]byte, 1<<20)
	for {
		n := runtime.Stack(buf, true)
		if n < len(buf) {
			buf = buf[:n]
			break
		}
		buf = make([]byte, 2*len(buf))
	}
	var out []string
	for _, g := range strings.Split(string(buf), "\n\n") {
		if libCreated.MatchString(g) {
			out = append(out, g)
		}
	}
	return out
}

func runC20Once(t fataler, c c20Case, iter int) string {
	e := newEnv(t)
	defer e.Teardown()
	spec := connSpec{Client: c.Mode.Client, Mode: c.Mode.Mode, Ext: c.Mode.Ext}
	if c.ViaNetConn && c.Mode.Client {
		// the application's own context type and an http.Client with a Timeout: whatever Dial derives from them ends with Dial
		spec.DialCtx, spec.DialTimeout = appContext{done: make(chan struct{})}, time.Hour
	}
	lc, err := e.open(spec)
	if err != nil {
		return "handshake: " + err.Error()
	}
	conn := lc.C
	p := lc.Peer
	p.onFrame = func(f ref.Frame) {
		switch f.Opcode {
		case ref.OpPing:
			p.send(ref.Frame{Fin: true, Opcode: ref.OpPong, Payload: f.Payload})
		case ref.OpClose:
			switch c.Echo {
			case "none":
			case "invalid":
				p.send(ref.Frame{Fin: true, Opcode: ref.OpClose, Payload: ref.ClosePayload(1005, "not allowed on the wire")})
			default:
				p.send(ref.Frame{Fin: true, Opcode: ref.OpClose, Payload: f.Payload})
			}
		}
	}
	p.start(e)
	base := context.Background()
	var ncParent context.Context = base
	if c.ViaNetConn {
		ncParent = c20App // lives as long as the "application": longer than this connection
	}
	closeReadOn := false
	var nc interface {
		Read([]byte) (int, error)
		Write([]byte) (int, error)
		SetDeadline(time.Time) error
		SetReadDeadline(time.Time) error
		Close() error
	}
	var pending []<-chan struct{}
	do := func(f func()) {
		d := e.Call(f)
		if !within(d, 20*time.Second) {
			pending = append(pending, d)
		}
	}
	for i, op := range c.Ops {
		if closeReadOn && (op == "read" || op == "abandon-reader" || op == "wsjson-read" || op == "netconn-rw" || op == "ping") {
			// with CloseRead active there is no other reader; ping still works
			if op != "ping" {
				continue
			}
		}
		switch op {
		case "read":
			p.send(ref.Frame{Fin: true, Opcode: ref.OpBinary, Payload: expand(ckText, uint64(i), 200)})
			do(func() { conn.Read(base) })
		case "write":
			do(func() { conn.Write(base, websocket.MessageText, []byte("hello")) })
		case "write-big":
			do(func() { conn.Write(base, websocket.MessageBinary, expand(ckPattern, 3, 20000)) })
		case "ping":
			if closeReadOn {
				do(func() {
					ctx, cancel := context.WithTimeout(base, 2*time.Second)
					defer cancel()
					conn.Ping(ctx)
				})
			} else {
				rctx, rcancel := context.WithCancel(base)
				rd := e.Call(func() { conn.Reader(rctx) })
				do(func() {
					ctx, cancel := context.WithTimeout(base, 2*time.Second)
					defer cancel()
					conn.Ping(ctx)
				})
				_ = rd
				_ = rcancel
				// the helper reader stays blocked until the connection ends (cancelling
				// its context would close the connection, which is a different ending)
				pending = append(pending, rd)
				closeReadOn = true // no further reads: a Reader call is outstanding
			}
		case "closeread":
			if !closeReadOn {
				conn.CloseRead(ncParent)
				closeReadOn = true
			} else {
				// once more (documented as a no-op that returns the same context), this time under a
				// context of the application's own type: whatever is derived from it must end with the connection
				conn.CloseRead(appContext{done: make(chan struct{})})
			}
		case "netconn-rw":
			if nc == nil {
				nc = websocket.NetConn(ncParent, conn, websocket.MessageBinary)
			}
			p.send(ref.Frame{Fin: true, Opcode: ref.OpBinary, Payload: []byte("to netconn")})
			do(func() { nc.Read(make([]byte, 4)); nc.Write([]byte("from netconn")) })
		case "netconn-deadline":
			if nc == nil {
				nc = websocket.NetConn(ncParent, conn, websocket.MessageBinary)
			}
			nc.SetDeadline(time.Now().Add(time.Duration(i+1) * 100 * time.Millisecond))
			e.sleep(time.Duration(i+2) * 100 * time.Millisecond)
			nc.SetDeadline(time.Time{})
		case "abandon-reader":
			p.send(ref.Frame{Fin: false, Opcode: ref.OpText, Payload: []byte("first fragment of an abandoned message")})
			rctx := base
			if iter%2 == 1 {
				// the message is begun under a context of the application's own type that lives on after the connection:
				// whatever the library derives from it for this message must end with the connection
				rctx = appContext{done: make(chan struct{})}
			}
			do(func() {
				_, r, err := conn.Reader(rctx)
				if err == nil {
					r.Read(make([]byte, 5))
				}
			})
			closeReadOn = true // the message is never finished: no more reads
		case "abandon-writer":
			do(func() {
				w, err := conn.Writer(base, websocket.MessageBinary)
				if err == nil {
					w.Write([]byte("never closed"))
				}
			})
		case "wsjson-write":
			do(func() { wsjson.Write(base, conn, map[string]int{"a": i}) })
		case "wsjson-read":
			p.send(ref.Frame{Fin: true, Opcode: ref.OpText, Payload: []byte(`{"k":[1,2,3]}`)})
			do(func() {
				var v any
				wsjson.Read(base, conn, &v)
			})
		}
	}
	// --- ending cause ---
	switch c.Ending {
	case "close":
		do(func() { conn.Close(websocket.StatusNormalClosure, "bye") })
	case "closenow":
		do(func() { conn.CloseNow() })
	case "peer-close":
		p.send(ref.Frame{Fin: true, Opcode: ref.OpClose, Payload: ref.ClosePayload(1001, "peer leaves")})
		if !closeReadOn {
			do(func() { conn.Read(base) })
		}
	case "violation":
		p.send(ref.Frame{Fin: true, Rsv2: true, Opcode: ref.OpBinary, Payload: []byte("rsv2")})
		if !closeReadOn {
			do(func() { conn.Read(base) })
		}
	case "read-limit":
		conn.SetReadLimit(16)
		p.send(ref.Frame{Fin: true, Opcode: ref.OpBinary, Payload: make([]byte, 64)})
		if !closeReadOn {
			do(func() { conn.Read(base) })
		}
	case "ctx-expiry":
		if !closeReadOn {
			do(func() {
				ctx, cancel := context.WithTimeout(base, time.Second)
				defer cancel()
				conn.Read(ctx)
			})
		} else {
			lc.End.SetInBudget(0)
			do(func() {
				ctx, cancel := context.WithTimeout(base, time.Second)
				defer cancel()
				conn.Write(ctx, websocket.MessageBinary, make([]byte, 9000))
			})
		}
	case "peer-flood":
		// the peer keeps sending data frames, one a second, and never sends a Close frame
		e.Go(func() {
			for i := 0; ; i++ {
				if p.send(ref.Frame{Fin: true, Opcode: ref.OpBinary, Payload: expand(ckPattern, uint64(i), 100)}) != nil {
					return
				}
				if !e.sleep(time.Second) {
					return
				}
			}
		})
		e.sleep(1500 * time.Millisecond)
	case "transport-eof":
		lc.End.CloseWrite(nil)
		if !closeReadOn {
			do(func() { conn.Read(base) })
		}
	case "transport-reset":
		lc.End.CloseWrite(memconn.ErrReset)
		if !closeReadOn {
			do(func() { conn.Read(base) })
		}
	case "closeread-behind-blocked-writer", "closeread-slow-handshake":
		// CloseRead is active and the peer sends a data message: the CloseRead goroutine starts a close handshake of
		// its own (status 1008). Either its Close frame has to queue behind an application Write that the peer takes
		// slowly - the peer reads exactly that message and nothing behind it - or the peer takes the Close frame off the
		// wire only after 4 s and never answers. The user's final call comes while that handshake is still going on.
		if !closeReadOn {
			conn.CloseRead(base)
			closeReadOn = true
		}
		c.Echo = "none"
		lc.End.SetInBudget(0)
		if c.Ending == "closeread-behind-blocked-writer" {
			big := make([]byte, 100000)
			do(func() { conn.Write(base, websocket.MessageBinary, big) })
			synctest.Wait()
			p.send(ref.Frame{Fin: true, Opcode: ref.OpBinary, Payload: []byte("data for a CloseRead connection")})
			synctest.Wait()
			hdr := 10
			if c.Mode.Client {
				hdr = 14
			}
			if c.Mode.Mode == websocket.CompressionDisabled {
				lc.End.AddInBudget(int64(len(big) + hdr)) // the message, to its last byte, and not one byte more
			} else {
				lc.End.AddInBudget(64) // compressed zeros are a few dozen bytes: some of the message, and then nothing
			}
		} else {
			p.send(ref.Frame{Fin: true, Opcode: ref.OpBinary, Payload: []byte("data for a CloseRead connection")})
			e.Go(func() {
				if e.sleep(4 * time.Second) {
					lc.End.SetInBudget(-1)
				}
			})
		}
	case "peer-stalls-in-next-header":
		// a complete data message and the first k bytes of the next frame's header arrive in one piece (2..14 bytes:
		// short of, at, or beyond the point where a header with an extended length is complete); then the peer is
		// silent, with the transport open
		f1 := ref.Frame{Fin: true, Opcode: ref.OpBinary, Payload: make([]byte, 50)}
		f2 := ref.Frame{Fin: true, Opcode: ref.OpBinary, Payload: make([]byte, []int{300, 70000, 100}[iter%3])}
		_, b1, _ := finishMasking([]ref.Frame{f1}, c.Mode.Client)
		_, b2, _ := finishMasking([]ref.Frame{f2}, c.Mode.Client)
		k := 2 + (iter/3)%13
		if k > len(b2)-len(f2.Payload) {
			k = len(b2) - len(f2.Payload) - 1
		}
		p.sendRaw(append(append([]byte(nil), b1...), b2[:k]...))
		if !closeReadOn {
			do(func() {
				conn.Read(base)
				conn.Read(base)
			})
		}
	case "transport-cut-midframe":
		f := ref.Frame{Fin: true, Opcode: ref.OpBinary, Payload: make([]byte, 300)}
		_, b, _ := finishMasking([]ref.Frame{f}, c.Mode.Client)
		p.sendRaw(b[:len(b)/2])
		lc.End.CloseWrite(nil)
		if !closeReadOn {
			do(func() { conn.Read(base) })
		}
	}
	e.sleep(time.Duration(iter%3) * time.Second)
	// --- the user closes, as every user must ---
	closed := e.Call(func() {
		if c.ViaNetConn && c.NCFinal && nc != nil {
			nc.Close() // the net.Conn's own Close: it ends the connection and everything NetConn started
			return
		}
		switch c.Final {
		case "Close":
			conn.Close(websocket.StatusNormalClosure, "")
		case "Close-badcode":
			conn.Close(websocket.StatusCode(1006), "") // returns an error, but must still close everything
		case "Close-longreason":
			conn.Close(websocket.StatusNormalClosure, strings.Repeat("r", 124))
		default:
			conn.CloseNow()
		}
	})
	if !within(closed, 30*time.Second) {
		return c.Final + " did not return within 30 s"
	}
	synctest.Wait()
	if gs := libGoroutines(); len(gs) > 0 {
		return fmt.Sprintf("%d goroutine(s) started by the library still exist after %s returned (iteration %d):\n%s", len(gs), c.Final, iter, gs[0])
	}
	for _, d := range pending {
		if !within(d, 5*time.Second) {
			return "a call on the connection is still blocked 5 s after " + c.Final + " returned"
		}
	}
	if ps := e.Panics(); len(ps) > 0 {
		return "library panicked: " + ps[0]
	}
	return ""
}

func TestC20(t *testing.T) {
	rec := evid.For("C20")
	rec.Rule = "rapid-generated histories of 0-15 operations {read, write, big write, ping, CloseRead, NetConn read/write, NetConn deadlines, abandoned reader, abandoned writer, wsjson read/write} on either role with or without compression, ended by a drawn cause {peer sending data frames for ever, Close, CloseNow, peer Close, protocol violation, read-limit excess, context expiry, transport EOF, transport reset, transport cut mid-frame}, after which the user calls Close or CloseNow; each history is repeated 20-50 times in one process. After the final call returned and the bubble is quiescent, the all-goroutine dump must contain no goroutine created by nhooyr.io/websocket. Non-trivial: CloseRead active, or ended by an error/fault rather than a clean close. distinct = hash(mode, ops, ending, final)."
	checkProp(t, func(rt *rapid.T) {
		var c c20Case
		c.Mode = rapid.SampledFrom(c16Modes).Draw(rt, "mode")
		n := rapid.IntRange(0, 15).Draw(rt, "nOps")
		hasCR := false
		for i := 0; i < n; i++ {
			op := rapid.SampledFrom(c20Ops).Draw(rt, "op")
			if op == "closeread" {
				hasCR = true
			}
			c.Ops = append(c.Ops, op)
		}
		c.Ending = rapid.SampledFrom(c20Endings).Draw(rt, "ending")
		c.Final = rapid.SampledFrom([]string{"Close", "Close", "CloseNow", "CloseNow", "Close-badcode", "Close-longreason"}).Draw(rt, "final")
		c.Repeat = rapid.SampledFrom([]int{20, 50}).Draw(rt, "repeat")
		c.Echo = rapid.SampledFrom([]string{"echo", "echo", "none", "invalid"}).Draw(rt, "peerEcho")
		via := rapid.IntRange(0, 3).Draw(rt, "viaNetConn")
		c.ViaNetConn, c.NCFinal = via <= 1, via == 0
		var msg string
		rapid.SyncTest(rt, func(rt *rapid.T) {
			c20App = appContext{done: make(chan struct{})}
			// ended last of all, so that what a connection left waiting for it is counted by the census
			// below and only then let go (a bubble must not end with goroutines blocked in it)
			defer func() { close(c20App.done); synctest.Wait() }()
			before, total := len(libGoroutines()), runtime.NumGoroutine()
			for it := 0; it < c.Repeat && msg == ""; it++ {
				msg = runC20Once(rt, c, it)
			}
			if msg == "" {
				if after := len(libGoroutines()); after != before {
					msg = fmt.Sprintf("library goroutines before the first repetition: %d, after the last: %d", before, after)
				}
			}
			if msg == "" {
				synctest.Wait()
				// every goroutine of the harness has been joined: what is left over was started on
				// behalf of the library (e.g. by the context package for a context the library derived)
				// A goroutine that stays behind per connection (or per second connection: some steps alternate
				// with the repetition) adds up over the 20 or 50 repetitions; a difference of one or two that
				// does not grow with the number of connections is the process's own (inside a fuzz worker the
				// count moves by one now and then with no connection involved - section 10 of DESIGN.md)
				if now := runtime.NumGoroutine(); now-total >= c.Repeat/4 {
					msg = fmt.Sprintf("goroutines in the process before the first repetition: %d, after the last: %d (%d left behind by %d connections)", total, now, now-total, c.Repeat)
				} else if now > total {
					evid.For("C20").Class("process-goroutine-count-off-by-less-than-a-quarter-of-the-connections(not-a-leak-per-connection)", 1)
				}
			}
		})
		nt := hasCR || (c.Ending != "close" && c.Ending != "closenow")
		rec.Case(nt, fmt.Sprintf("%s|%v|%s|%s|%s|%v|%v", c.Mode.Name, c.Ops, c.Ending, c.Final, c.Echo, c.ViaNetConn, c.NCFinal), fmt.Sprintf("netconn-of-app-context:%v/own-close:%v", c.ViaNetConn, c.NCFinal), "ending:"+c.Ending, "final:"+c.Final, fmt.Sprintf("closeread:%v", hasCR), "peer-echo:"+c.Echo)
		rec.Evals(int64(c.Repeat - 1))
		if rec.WantSample() {
			rec.Sample(fmt.Sprintf("%+v", c))
		}
		if msg != "" {
			rt.Fatalf("C20 %+v: %s", c, msg)
		}
	})
}

// TestC20Lag: a transport whose Close does not interrupt pending I/O at once (the
// calls blocked in it fail 5 s later). Whatever the library does about the calls
// that are still in flight, once Close / CloseNow has returned no goroutine it
// started may be left. This runs on the real clock, outside a synctest bubble
// (a goroutine waiting for a sync.Mutex while the lock's holder waits for the
// fake clock would freeze the bubble): goroutines get 2 s to finish exiting, the
// transport holds the calls for 5 s.
func TestC20Lag(t *testing.T) {
	rec := evid.For("C20")
	type lagCase struct {
		Client bool
		Op     string // read | write | both | closeread | closeread+write | slowclose-peer-closes
		Final  string
	}
	var lagging, laggingCR, slowClose []lagCase
	for _, client := range []bool{false, true} {
		for _, op := range []string{"read", "write", "both", "closeread", "closeread+write"} {
			for _, fin := range []string{"CloseNow", "Close"} {
				if strings.HasPrefix(op, "closeread") {
					laggingCR = append(laggingCR, lagCase{client, op, fin})
				} else {
					lagging = append(lagging, lagCase{client, op, fin})
				}
			}
		}
		// the transport's Close itself takes 5 s, and it is a goroutine of the library (CloseRead, answering
		// the peer's Close frame) that is inside it when the application calls CloseNow / Close
		slowClose = append(slowClose, lagCase{client, "slowclose-peer-closes", "CloseNow"}, lagCase{client, "slowclose-peer-closes", "Close"})
	}
	// (a replay runs the whole list again: the cases of a phase share one process-wide goroutine census)
	// Per phase: all connections are set up, then all are closed at the same time, then the
	// process must be free of library goroutines. The two kinds of transport get a phase each:
	// in both the final calls take 5 s when the library waits as it should, and a phase is over
	// when its slowest call has returned.
	// (the cases of a phase must be alike in how long a CORRECT and an INCORRECT final call takes, or the
	// slow ones would cover for the fast ones: with CloseRead active every implementation waits for the
	// reader goroutine, so those cases have a phase of their own)
	// ... and CloseNow and Close take different times too. One phase per (kind of transport, final call);
	// the phases are spread over the shards of the stage (one process each), so they run side by side.
	shard, shards := evid.EnvInt("VERIF_SHARD", 0), evid.EnvInt("VERIF_SHARDS", 1)
	idx := 0
	for _, group := range [][]lagCase{lagging, laggingCR, slowClose} {
		for _, fin := range []string{"CloseNow", "Close"} {
			var cases []lagCase
			for _, c := range group {
				if c.Final == fin {
					cases = append(cases, c)
				}
			}
			idx++
			if idx%shards != shard {
				continue
			}
			c20LagPhase(t, rec, cases, func(c lagCase) (bool, string, string) { return c.Client, c.Op, c.Final })
		}
	}
}

func c20LagPhase[T any](t *testing.T, rec *evid.Rec, cases []T, fields func(T) (bool, string, string)) {
	type lagCase struct {
		Client bool
		Op     string
		Final  string
	}
	e := newEnv(t)
	defer e.Teardown()
	var conns []*libConn
	var cs []lagCase
	for _, raw := range cases {
		cl, op, fin := fields(raw)
		cs = append(cs, lagCase{cl, op, fin})
	}
	for _, c := range cs {
		lc, err := e.open(connSpec{Client: c.Client})
		if err != nil {
			t.Fatalf("handshake: %v", err)
		}
		if c.Op == "slowclose-peer-closes" {
			lc.Lib.SetCloseDelay(5 * time.Second)
			lc.Peer.start(e)
			lc.C.CloseRead(context.Background())
			lc.Peer.send(ref.Frame{Fin: true, Opcode: ref.OpClose, Payload: ref.ClosePayload(1000, "")})
			conns = append(conns, lc)
			continue
		}
		lc.Lib.SetCloseLag(5 * time.Second)
		lc.Peer.start(e)
		if c.Op == "read" || c.Op == "both" {
			e.Go(func() { lc.C.Read(context.Background()) })
		}
		if strings.HasPrefix(c.Op, "closeread") {
			lc.C.CloseRead(context.Background()) // the library's own reader goroutine sits in the transport
		}
		if c.Op == "write" || c.Op == "both" || c.Op == "closeread+write" {
			lc.End.SetInBudget(0)
			e.Go(func() { lc.C.Write(context.Background(), websocket.MessageBinary, make([]byte, 9000)) })
		}
		conns = append(conns, lc)
	}
	time.Sleep(300 * time.Millisecond) // the calls are in the transport now
	var finals []<-chan struct{}
	for i, c := range cs {
		lc, c := conns[i], c
		finals = append(finals, e.Call(func() {
			if c.Final == "Close" {
				lc.C.Close(websocket.StatusNormalClosure, "")
			} else {
				lc.C.CloseNow()
			}
		}))
	}
	for i, d := range finals {
		select {
		case <-d:
		case <-time.After(60 * time.Second):
			failCase(t, "C20", cs[i], "%s did not return within 60 s (real time) on a transport that holds pending I/O for 5 s after Close", cs[i].Final)
		}
	}
	deadline := time.Now().Add(2 * time.Second)
	for {
		gs := libGoroutines()
		if len(gs) == 0 {
			break
		}
		if time.Now().After(deadline) {
			failCase(t, "C20", map[string]any{"lag": true, "cases": cs}, "%d goroutine(s) started by the library still exist 2 s after every Close / CloseNow had returned (the transport holds pending I/O, or its own Close, for 5 s):\n%s", len(gs), gs[0])
		}
		time.Sleep(20 * time.Millisecond)
	}
	for _, c := range cs {
		rec.Case(true, fmt.Sprintf("lag|%v|%s|%s", c.Client, c.Op, c.Final), "transport-close-does-not-interrupt-io")
	}
}
