package props

import (
	"bytes"
	"context"
	"fmt"
	"io"
	"runtime"
	"strings"
	"sync"
	"sync/atomic"
	"testing"
	"testing/synctest"
	"time"

	"nhooyr.io/websocket"
	"nhooyr.io/websocket/wsjson"
	"pgregory.net/rapid"
	"verif/harness/evid"
	"verif/harness/ref"
	"verif/harness/wsx"
)

// C07 — connections are isolated: pooled buffers never leak data between connections.

type c07Conn struct {
	id    int
	lc    *libConn
	mode  c03Mode
	alive bool // usable for reads
	open  bool // not yet closed locally
	// cleanDead: closed (by the peer's Close frame or locally) while no message was open: every
	// further call on it, also on the reader of its last message, fails at once
	cleanDead bool
	def       *ref.Deflater
	pending   [][]byte // complete inbound messages not yet (fully) read
	pfrags    []int    // fragment count of each pending message
	pcomp     []bool   // whether each pending message went out compressed
	curComp   bool
	noEcho    atomic.Bool // the peer does not answer this connection's Close frame (its close handshake runs into the 5 s limit)
	noComp    bool        // after a partly read compressed message was abandoned under context takeover the window is out of step: no more compressed messages
	curFrags  int
	compHist  int // bytes of compressed-message payload received under takeover (this connection\'s own LZ77 history)
	cur       io.Reader
	curWant   []byte
	curOff    int
	last      io.Reader // reader of the last message read to EOF
	seq       int
	written   [][]byte
	jsonNext  bool
}

var c07Modes = []c03Mode{
	{"server/takeover", false, websocket.CompressionContextTakeover, "permessage-deflate"},
	{"client/takeover", true, websocket.CompressionContextTakeover, "permessage-deflate"},
	{"server/mode-no-ctx", false, websocket.CompressionNoContextTakeover, "permessage-deflate"},
	{"client/mode-no-ctx", true, websocket.CompressionNoContextTakeover, "permessage-deflate; client_no_context_takeover; server_no_context_takeover"},
	{"server/off", false, websocket.CompressionDisabled, ""},
	{"client/off", true, websocket.CompressionDisabled, ""},
	// handshakes whose outcome differs from the mode's default: whatever they write down must stay with their own connection
	{"server/takeover+no-ctx-offer", false, websocket.CompressionContextTakeover, "permessage-deflate; client_no_context_takeover; server_no_context_takeover"},
	{"server/takeover+client_no_ctx-offer", false, websocket.CompressionContextTakeover, "permessage-deflate; client_no_context_takeover"},
	{"client/takeover+no-ctx-resp", true, websocket.CompressionContextTakeover, "permessage-deflate; client_no_context_takeover; server_no_context_takeover"},
}

type c07Kept struct {
	conn int
	data []byte // what Conn.Read returned (the library's slice, kept by the "application")
	want []byte
}

type c07State struct {
	e     *env
	conns []*c07Conn
	kept  []c07Kept
	// bookkeeping for the non-trivial rule
	released     map[int]bool // connections that released pooled reader state (EOF, error, close)
	crossReuse   int
	releaseKinds map[string]int
	steps        []string
}

func (s *c07State) openConn(t fataler, mode c03Mode, pipelined ...[]byte) *c07Conn {
	spec := connSpec{Client: mode.Client, Mode: mode.Mode, Ext: mode.Ext}
	if len(pipelined) > 0 && !mode.Client {
		spec.Pipelined = pipelined[0] // arrives in the same segment as the handshake request
	}
	lc, err := s.e.open(spec)
	if err != nil {
		t.Fatalf("handshake: %v", err)
	}
	lc.C.SetReadLimit(1 << 20)
	if !mode.Client {
		// what a server agrees to is a function of its own options and this request only
		off := mode.Mode != websocket.CompressionDisabled && strings.Contains(mode.Ext, "permessage-deflate")
		want := wsx.Agreed{Deflate: off,
			ClientNoCtx: off && (mode.Mode == websocket.CompressionNoContextTakeover || strings.Contains(mode.Ext, "client_no_context_takeover")),
			ServerNoCtx: off && (mode.Mode == websocket.CompressionNoContextTakeover || strings.Contains(mode.Ext, "server_no_context_takeover"))}
		if lc.Agreed != want {
			t.Fatalf("C07: connection %d (%s, offer %q): the handshake agreed %+v, but its own options and request give %+v: it was influenced by the handshakes of other connections", len(s.conns), mode.Name, mode.Ext, lc.Agreed, want)
		}
	}
	c := &c07Conn{id: len(s.conns), lc: lc, mode: mode, alive: true, open: true}
	c.def = ref.NewDeflater(lc.Agreed.SenderTakeover(!mode.Client))
	p := lc.Peer
	p.onFrame = func(f ref.Frame) {
		if f.Opcode == ref.OpClose && !c.noEcho.Load() {
			p.send(ref.Frame{Fin: true, Opcode: ref.OpClose, Payload: f.Payload})
		}
	}
	p.start(s.e)
	s.conns = append(s.conns, c)
	return c
}

// c07FinalBlock: whether a compressed message with this payload is sent as a stream ending in a final block.
func c07FinalBlock(payload []byte) bool { return len(payload)%3 == 2 }

// sendMsg makes the peer of c send one complete message; upTo < 0 sends all fragments.
func (c *c07Conn) frames(payload []byte, compress bool, nfrag int, text bool) []ref.Frame {
	raw := payload
	comp := compress && c.lc.Agreed.Deflate && !c.noComp
	if comp {
		// a third of the compressed messages (those whose length is 2 mod 3) end their DEFLATE stream with a
		// final block (RFC 7692 section 7.2.3.4, what zlib-based senders emit): the receiver's flate reader stops
		// before the end of the message, which is a path of its own through the pooling of readers
		v := ref.DVSync
		if c07FinalBlock(payload) {
			v = ref.DVBFinal
		}
		raw = c.def.Message(payload, v)
		if c.lc.Agreed.SenderTakeover(!c.mode.Client) {
			c.compHist += len(payload) // this connection's own LZ77 history grows
		}
	}
	per := len(raw)/nfrag + 1
	var out []ref.Frame
	for j, off := 0, 0; j < nfrag; j++ {
		end := off + per
		if end > len(raw) || j == nfrag-1 {
			end = len(raw)
		}
		f := ref.Frame{Fin: j == nfrag-1, Payload: raw[off:end]}
		if j == 0 {
			f.Opcode, f.Rsv1 = ref.OpBinary, comp
			if text {
				f.Opcode = ref.OpText
			}
		}
		out = append(out, f)
		off = end
	}
	return out
}

func (s *c07State) call(t fataler, what string, f func()) {
	d := s.e.Call(f)
	if !within(d, 60*time.Second) {
		t.Fatalf("C07: %s did not return within 60 s (virtual); steps: %v", what, s.steps)
	}
	if ps := s.e.Panics(); len(ps) > 0 {
		t.Fatalf("C07: library panicked during %s: %s\nsteps: %v", what, ps[0], s.steps)
	}
}

// readSome performs one Read on c's current message and checks it against c's own stream.
func (s *c07State) readSome(t fataler, c *c07Conn, bufSize int) (eof bool) {
	if c.cur == nil {
		if len(c.pending) == 0 {
			return true
		}
		var r io.Reader
		var err error
		s.call(t, "Reader", func() { _, r, err = c.lc.C.Reader(context.Background()) })
		if err != nil {
			t.Fatalf("C07: conn %d: Reader failed although a complete message is waiting: %v\nsteps: %v", c.id, err, s.steps)
		}
		c.cur, c.curWant, c.curOff = r, c.pending[0], 0
		c.pending = c.pending[1:]
		c.curFrags = 1
		c.curComp = false
		if len(c.pcomp) > 0 {
			c.curComp = c.pcomp[0]
			c.pcomp = c.pcomp[1:]
		}
		if len(c.pfrags) > 0 {
			c.curFrags = c.pfrags[0]
			c.pfrags = c.pfrags[1:]
		}
		if s.anyReleasedOther(c.id) && c.lc.Agreed.Deflate {
			s.crossReuse++
		}
	}
	buf := make([]byte, bufSize)
	var n int
	var err error
	s.call(t, "Read", func() { n, err = c.cur.Read(buf) })
	got := buf[:n]
	if c.curOff+n > len(c.curWant) || !bytes.Equal(got, c.curWant[c.curOff:c.curOff+n]) {
		t.Fatalf("C07: conn %d (%s): Read returned %d bytes that are not the next bytes of this connection's own message (offset %d of %d): got %x..., provenance of first byte: conn tag %#x\nsteps: %v",
			c.id, c.mode.Name, n, c.curOff, len(c.curWant), got[:min(16, n)], firstByte(got), s.steps)
	}
	c.curOff += n
	if err == io.EOF {
		if c.curOff != len(c.curWant) {
			t.Fatalf("C07: conn %d (%s): message ended after %d of %d bytes (bytes lost: a decompressor or buffer was taken away?)\nsteps: %v", c.id, c.mode.Name, c.curOff, len(c.curWant), s.steps)
		}
		c.last, c.cur = c.cur, nil
		s.release(c.id, "eof")
		return true
	}
	if err != nil {
		t.Fatalf("C07: conn %d (%s): Read failed in the middle of a complete, valid message: %v\nsteps: %v", c.id, c.mode.Name, err, s.steps)
	}
	return false
}

func firstByte(b []byte) byte {
	if len(b) == 0 {
		return 0
	}
	return b[0]
}

func (s *c07State) release(id int, kind string) {
	s.released[id] = true
	s.releaseKinds[kind]++
}

func (s *c07State) anyReleasedOther(id int) bool {
	for k := range s.released {
		if k != id {
			return true
		}
	}
	return false
}

func (s *c07State) pick(rt *rapid.T, pred func(*c07Conn) bool) *c07Conn {
	var ok []*c07Conn
	for _, c := range s.conns {
		if pred(c) {
			ok = append(ok, c)
		}
	}
	if len(ok) == 0 {
		return nil // the action degenerates to a no-op (skipping exhausts rapid's retry budget in long runs)
	}
	return ok[rapid.IntRange(0, len(ok)-1).Draw(rt, "connIdx")]
}

var c07Sizes = []int{0, 1, 50, 500, 5000, 40000}
var c07Bufs = []int{1, 7, 100, 4096, 50000}

func TestC07(t *testing.T) {
	rec := evid.For("C07")
	rec.Rule = "rapid state machine over 2-6 simultaneously open connections (roles and compression modes drawn per connection) with scripted peers; every inbound payload byte is a function of (connection, message, offset). Actions: peer sends a message (un/compressed, 1-3 fragments); read n bytes; read to EOF; read AGAIN from a reader that already returned EOF; abandon a message and ask for a new reader; protocol violation mid-message; local Close/CloseNow; peer Close frame between the fragments of a compressed message; reader context expiry mid-message; wsjson.Read; wsjson.Read of a document cut short (close, violation, context expiry, read limit) or invalid; two wsjson.Read calls on two connections overlapping in time; two connections' compressed messages read interleaved; asking for the next message after reading only part of a small one; open a fresh connection (reusing the pools); write messages (checked on the wire by the reference decoder). Oracle: every Read result is the next bytes of that connection's own stream or an error, no byte is lost, a read after EOF yields no data, no panic. Non-trivial: a connection released pooled reader state (EOF, error, close) and a different connection subsequently started reading a compressed message. distinct = hash(step sequence)."
	checkProp(t, func(rt *rapid.T) {
		rapid.SyncTest(rt, func(rt *rapid.T) {
			e := newEnv(rt)
			defer e.Teardown()
			s := &c07State{e: e, released: map[int]bool{}, releaseKinds: map[string]int{}}
			n0 := rapid.IntRange(2, 4).Draw(rt, "nConns")
			for i := 0; i < n0; i++ {
				s.openConn(rt, rapid.SampledFrom(c07Modes).Draw(rt, "mode"))
			}
			step := func(f string, a ...any) { s.steps = append(s.steps, fmt.Sprintf(f, a...)) }
			readable := func(c *c07Conn) bool { return c.alive && (c.cur != nil || len(c.pending) > 0) }
			rt.Repeat(map[string]func(*rapid.T){
				"send": func(rt *rapid.T) {
					c := s.pick(rt, func(c *c07Conn) bool { return c.alive })
					if c == nil {
						return
					}
					n := rapid.SampledFrom(c07Sizes).Draw(rt, "size")
					comp := rapid.IntRange(0, 2).Draw(rt, "compress") != 0
					nf := rapid.IntRange(1, 3).Draw(rt, "frags")
					payload := tagged(c.id, c.seq, n)
					if rapid.Bool().Draw(rt, "repeatsPrevious") {
						payload = taggedRepeat(c.id, c.seq, n)
					}
					c.seq++
					for _, f := range c.frames(payload, comp, nf, false) {
						c.lc.Peer.send(f)
					}
					c.pending = append(c.pending, payload)
					c.pfrags = append(c.pfrags, nf)
					c.pcomp = append(c.pcomp, comp && c.lc.Agreed.Deflate && !c.noComp)
					step("send(c%d,%d,comp=%v,frags=%d)", c.id, n, comp, nf)
				},
				"readSome": func(rt *rapid.T) {
					c := s.pick(rt, readable)
					if c == nil {
						return
					}
					b := rapid.SampledFrom(c07Bufs).Draw(rt, "buf")
					step("readSome(c%d,%d)", c.id, b)
					s.readSome(rt, c, b)
				},
				"readAll": func(rt *rapid.T) {
					c := s.pick(rt, readable)
					if c == nil {
						return
					}
					b := rapid.SampledFrom(c07Bufs).Draw(rt, "buf")
					step("readAll(c%d,%d)", c.id, b)
					for i := 0; !s.readSome(rt, c, b); i++ {
					}
				},
				"readAfterEOF": func(rt *rapid.T) {
					// (only while the connection is in order: once a later message of it has failed half-way,
					// the connection's one reader object is inside that message, and a Read on the old handle
					// waits for the rest of it like any other Read)
					c := s.pick(rt, func(c *c07Conn) bool { return (c.alive || c.cleanDead) && c.last != nil && c.cur == nil })
					if c == nil {
						return
					}
					b := rapid.SampledFrom(c07Bufs).Draw(rt, "buf")
					step("readAfterEOF(c%d,%d,closed=%v)", c.id, b, c.cleanDead)
					buf := make([]byte, b)
					var n int
					s.call(rt, "Read after EOF", func() { n, _ = c.last.Read(buf) })
					if n != 0 {
						rt.Fatalf("C07: conn %d (%s): a Read after end-of-message returned %d bytes: %x... (first byte tag %#x: bytes of another connection or message)\nsteps: %v", c.id, c.mode.Name, n, buf[:min(16, n)], buf[0], s.steps)
					}
				},
				"abandon": func(rt *rapid.T) {
					// Only while the library cannot have seen the final frame yet: nothing read
					// from a message of several fragments. (Abandoning later is the documented
					// "read to EOF or the connection will hang" user error.)
					c := s.pick(rt, func(c *c07Conn) bool { return c.alive && c.cur != nil && c.curOff == 0 && c.curFrags >= 2 })
					if c == nil {
						return
					}
					step("abandon(c%d)", c.id)
					var err error
					s.call(rt, "Reader on an unfinished message", func() { _, _, err = c.lc.C.Reader(context.Background()) })
					if err == nil {
						rt.Fatalf("C07: conn %d: Reader succeeded although the previous message was not read to completion", c.id)
					}
					c.alive = false
				},
				"closeReadData": func(rt *rapid.T) {
					// The application expects no more messages (CloseRead) and the peer sends one all the same -
					// compressed where that was agreed: the library starts a close handshake of its own, which the
					// peer does not answer, so the connection lingers for seconds of virtual time in a half-closed
					// state while the other connections carry on. Whatever it took from the pools for that message
					// must not surface anywhere else, now or when it finally closes.
					c := s.pick(rt, func(c *c07Conn) bool { return c.alive && c.open && c.cur == nil && len(c.pending) == 0 })
					if c == nil {
						return
					}
					c.noEcho.Store(true)
					c.lc.C.CloseRead(context.Background())
					payload := tagged(c.id, c.seq, rapid.SampledFrom([]int{50, 3000}).Draw(rt, "unexpectedSize"))
					c.seq++
					for _, f := range c.frames(payload, true, 1, false) {
						c.lc.Peer.send(f)
					}
					step("closeReadData(c%d,%d)", c.id, len(payload))
					synctest.Wait()
					c.alive = false // nothing can be read from it any more; it is still open (closing by itself)
					s.release(c.id, "closeread-data")
				},
				"closeLocal": func(rt *rapid.T) {
					c := s.pick(rt, func(c *c07Conn) bool { return c.open })
					if c == nil {
						return
					}
					now := rapid.Bool().Draw(rt, "closeNow")
					step("closeLocal(c%d,now=%v,midMessage=%v)", c.id, now, c.cur != nil)
					s.call(rt, "Close", func() {
						if now {
							c.lc.C.CloseNow()
						} else {
							c.lc.C.Close(websocket.StatusNormalClosure, "")
						}
					})
					c.cleanDead = c.cur == nil && len(c.pending) == 0
					c.alive, c.open = false, false
					s.release(c.id, "local-close")
				},
				"peerCloseBoundary": func(rt *rapid.T) {
					// the peer closes between two messages: the Close frame is taken in by a Reader call
					c := s.pick(rt, func(c *c07Conn) bool { return c.alive && c.open && c.cur == nil && len(c.pending) == 0 })
					if c == nil {
						return
					}
					step("peerCloseBoundary(c%d)", c.id)
					c.lc.Peer.send(ref.Frame{Fin: true, Opcode: ref.OpClose, Payload: ref.ClosePayload(1000, "")})
					var err error
					s.call(rt, "Reader taking in the peer's Close frame", func() { _, _, err = c.lc.C.Reader(context.Background()) })
					if err == nil {
						rt.Fatalf("C07: conn %d: Reader returned nil for a Close frame\nsteps: %v", c.id, s.steps)
					}
					c.alive, c.cleanDead = false, true
					s.release(c.id, "peer-close-at-boundary")
				},
				"peerCloseMid": func(rt *rapid.T) {
					c := s.pick(rt, func(c *c07Conn) bool { return c.alive && c.cur == nil && len(c.pending) == 0 })
					if c == nil {
						return
					}
					kind := rapid.SampledFrom([]string{"close", "violation", "ctx-expiry"}).Draw(rt, "midKind")
					payload := tagged(c.id, c.seq, rapid.SampledFrom([]int{500, 5000, 40000}).Draw(rt, "size"))
					c.seq++
					fr := c.frames(payload, true, 3, false)
					c.lc.Peer.send(fr[0])
					ctx := context.Background()
					var cancel context.CancelFunc = func() {}
					switch kind {
					case "close":
						c.lc.Peer.send(ref.Frame{Fin: true, Opcode: ref.OpClose, Payload: ref.ClosePayload(1000, "")})
					case "violation":
						c.lc.Peer.send(ref.Frame{Fin: true, Opcode: 0x5, Payload: []byte("reserved")})
					case "ctx-expiry":
						ctx, cancel = context.WithTimeout(ctx, time.Second)
					}
					cutBuf := rapid.SampledFrom([]int{64, 1000, 50000}).Draw(rt, "cutBuf")
					step("peerCloseMid(c%d,%s,buf=%d)", c.id, kind, cutBuf)
					var got []byte
					var rerr error
					s.call(rt, "read of a message that is cut short", func() {
						defer cancel()
						_, r, err := c.lc.C.Reader(ctx)
						if err != nil {
							rerr = err
							return
						}
						buf := make([]byte, cutBuf)
						for {
							n, err := r.Read(buf)
							got = append(got, buf[:n]...)
							if err != nil {
								rerr = err
								return
							}
						}
					})
					if rerr == nil || rerr == io.EOF {
						rt.Fatalf("C07: conn %d: a message cut short by %s ended with %v", c.id, kind, rerr)
					}
					if !bytes.HasPrefix(payload, got) {
						rt.Fatalf("C07: conn %d: bytes read before the %s are not a prefix of this connection's message\nsteps: %v", c.id, kind, s.steps)
					}
					c.alive = false
					s.release(c.id, "mid-message-"+kind)
					// whatever that connection's reader state released into the pools must be clean:
					// a fresh takeover connection is opened at once and probed by a hostile peer
					if rapid.Bool().Draw(rt, "probeRightAfter") && len(s.conns) < 10 {
						m := c07Modes[0]
						if rapid.Bool().Draw(rt, "probeAsClient") {
							m = c07Modes[1]
						}
						f := s.openConn(rt, m)
						// distance 1 repeats the last byte of the window 258 times: one stale byte is enough to show
						dist := rapid.SampledFrom([]int{1, 2, 32, 258, 1000, 5000}).Draw(rt, "probeDist")
						step("freshProbe(c%d,%s,dist=%d)", f.id, m.Name, dist)
						f.lc.Peer.send(ref.Frame{Fin: true, Opcode: ref.OpBinary, Rsv1: true, Payload: ref.CraftBackref(dist)})
						var leaked []byte
						s.call(rt, "read of a crafted back-reference on a fresh connection", func() {
							_, r, err := f.lc.C.Reader(context.Background())
							if err != nil {
								return
							}
							leaked, _ = io.ReadAll(r)
						})
						if len(leaked) > 0 {
							rt.Fatalf("C07: fresh conn %d (%s): a stream that references data from before its own start was inflated to %d bytes: %x... - the pooled window still held another connection's data\nsteps: %v", f.id, m.Name, len(leaked), leaked[:min(16, len(leaked))], s.steps)
						}
						f.alive = false
					}
				},
				"abandonPartial": func(rt *rapid.T) {
					// The application reads part of a small single-frame message and then simply asks for
					// the next one. Whether that works depends on how much of the frame the library had
					// consumed (the documentation only promises trouble): either Reader fails, or it
					// hands out the next message intact. In both cases whatever the abandoned message's
					// pooled state goes through must not reach other connections (checked by every later step).
					c := s.pick(rt, func(c *c07Conn) bool {
						// a compressed single-frame message of this size has been taken in completely by the
						// library's buffers when the first byte comes out (otherwise the rest of the frame
						// would be taken for frame headers: the documented user error)
						// (a stream that ends in a final block is followed by one more byte, which the flate reader
						// has NOT taken in at that point: abandoning such a message is the documented user error again)
						return c.alive && c.cur != nil && c.curComp && !c07FinalBlock(c.curWant) && c.curOff > 0 && c.curFrags == 1 && len(c.curWant) <= 3000 && len(c.pending) == 0
					})
					if c == nil {
						return
					}
					next := tagged(c.id, c.seq, rapid.SampledFrom([]int{1, 50, 500}).Draw(rt, "nextSize"))
					c.seq++
					// (with context takeover the abandoned message's unread bytes never reach the window, so a
					// compressed successor may rightly fail to inflate: the successor is sent uncompressed then)
					if c.lc.Agreed.SenderTakeover(!c.mode.Client) {
						c.noComp = true
					}
					nextComp := rapid.IntRange(0, 3).Draw(rt, "nextCompressed") == 0
					for _, f := range c.frames(next, nextComp, 1, false) {
						c.lc.Peer.send(f)
					}
					step("abandonPartial(c%d,readSoFar=%d/%d,next=%d)", c.id, c.curOff, len(c.curWant), len(next))
					var r io.Reader
					var err error
					s.call(rt, "Reader after a partly read message", func() {
						// give up after 5 s, but leave the context alone if the call succeeds: the reader lives on it
						ctx, cancel := context.WithCancel(context.Background())
						s.e.mu.Lock()
						s.e.cancels = append(s.e.cancels, cancel)
						s.e.mu.Unlock()
						returned := make(chan struct{})
						s.e.Go(func() {
							select {
							case <-returned:
							case <-time.After(5 * time.Second):
								cancel()
							}
						})
						_, r, err = c.lc.C.Reader(ctx)
						close(returned)
					})
					c.cur = nil
					c.last = nil // the reader handle of the earlier message is the connection's one reader: it now belongs to whatever comes next
					if err != nil {
						c.alive = false
						s.release(c.id, "abandon-partial-failed")
						return
					}
					c.cur, c.curWant, c.curOff, c.curFrags = r, next, 0, 1
					c.curComp = nextComp && c.lc.Agreed.Deflate && !c.noComp
					s.release(c.id, "abandon-partial")
					// the successor is read to its end at once: whatever the abandoned message still held goes back to the pools now
					for !s.readSome(rt, c, 4096) {
					}
				},
				"interleave2": func(rt *rapid.T) {
					// two connections have a compressed message in progress at the same time: B's is begun,
					// C's is begun and finished, then B's is finished - each must see its own bytes only
					ok := func(c *c07Conn) bool {
						return c.alive && c.cur == nil && len(c.pending) == 0 && c.lc.Agreed.Deflate && !c.noComp
					}
					b := s.pick(rt, ok)
					if b == nil {
						return
					}
					cc := s.pick(rt, func(c *c07Conn) bool { return ok(c) && c != b })
					if cc == nil {
						return
					}
					for _, c := range []*c07Conn{b, cc} {
						n := rapid.SampledFrom([]int{300, 3000, 20000}).Draw(rt, "size")
						payload := taggedRepeat(c.id, c.seq, n)
						c.seq++
						for _, f := range c.frames(payload, true, 1, false) {
							c.lc.Peer.send(f)
						}
						c.pending = append(c.pending, payload)
						c.pfrags = append(c.pfrags, 1)
						c.pcomp = append(c.pcomp, true)
					}
					step("interleave2(c%d,c%d)", b.id, cc.id)
					s.readSome(rt, b, 1)
					for !s.readSome(rt, cc, 4096) {
					}
					for !s.readSome(rt, b, 4096) {
					}
				},
				"wsjsonOverlap": func(rt *rapid.T) {
					// two wsjson.Read calls on two connections overlap in time: B's document arrives in
					// two pieces, and C's whole document is read while B's call waits for the second one
					idle := func(c *c07Conn) bool { return c.alive && c.cur == nil && len(c.pending) == 0 }
					b := s.pick(rt, idle)
					if b == nil {
						return
					}
					cc := s.pick(rt, func(c *c07Conn) bool { return idle(c) && c != b })
					if cc == nil {
						return
					}
					mk := func(c *c07Conn, pad int) string {
						d := fmt.Sprintf(`{"conn":%d,"seq":%d,"pad":"%s"}`, c.id, c.seq, bytes.Repeat([]byte{byte('a' + c.id)}, pad))
						c.seq++
						return d
					}
					docB, docC := mk(b, 6000), mk(cc, 300)
					fb := b.frames([]byte(docB), false, 2, true)
					b.lc.Peer.send(fb[0])
					step("wsjsonOverlap(c%d,c%d)", b.id, cc.id)
					type val struct {
						Conn, Seq int
						Pad       string
					}
					var vb, vc val
					var eb, ec error
					bd := s.e.Call(func() { eb = wsjson.Read(context.Background(), b.lc.C, &vb) })
					synctest.Wait()
					for _, f := range cc.frames([]byte(docC), false, 1, true) {
						cc.lc.Peer.send(f)
					}
					s.call(rt, "wsjson.Read", func() { ec = wsjson.Read(context.Background(), cc.lc.C, &vc) })
					b.lc.Peer.send(fb[1])
					if !within(bd, 60*time.Second) {
						rt.Fatalf("C07: conn %d: wsjson.Read did not return\nsteps: %v", b.id, s.steps)
					}
					if ec != nil || vc.Conn != cc.id || vc.Seq != cc.seq-1 || len(vc.Pad) != 300 {
						rt.Fatalf("C07: conn %d: wsjson.Read overlapping with one on conn %d returned %+v, %v\nsteps: %v", cc.id, b.id, val{vc.Conn, vc.Seq, trunc([]byte(vc.Pad))}, ec, s.steps)
					}
					if eb != nil || vb.Conn != b.id || vb.Seq != b.seq-1 || len(vb.Pad) != 6000 {
						rt.Fatalf("C07: conn %d: wsjson.Read overlapping with one on conn %d returned conn=%d seq=%d pad=%d bytes, %v\nsteps: %v", b.id, cc.id, vb.Conn, vb.Seq, len(vb.Pad), eb, s.steps)
					}
					s.release(b.id, "wsjson")
					s.release(cc.id, "wsjson")
				},
				"wsjsonCut": func(rt *rapid.T) {
					// wsjson.Read of a document that is cut short (the peer closes, violates the
					// protocol or stalls until the context expires after the first fragment): the
					// pooled buffer it was collecting in goes back to the pool, and whatever the
					// next wsjson.Read on ANOTHER connection decodes must be that connection's own
					c := s.pick(rt, func(c *c07Conn) bool { return c.alive && c.cur == nil && len(c.pending) == 0 })
					if c == nil {
						return
					}
					kind := rapid.SampledFrom([]string{"close", "violation", "ctx-expiry", "read-limit", "invalid-json", "invalid-json"}).Draw(rt, "cutKind")
					doc := fmt.Sprintf(`{"conn":%d,"seq":%d,"pad":"%s"}`, c.id, c.seq, bytes.Repeat([]byte{byte('a' + c.id)}, 2000))
					c.seq++
					fr := c.frames([]byte(doc), rapid.Bool().Draw(rt, "cutCompressed"), 3, true)
					ctx := context.Background()
					var cancel context.CancelFunc = func() {}
					if kind == "invalid-json" {
						// a complete message that is not JSON: the call fails and closes the connection with 1007
						for _, f := range c.frames([]byte(doc[:len(doc)-2]+"!!"), false, 2, true) {
							c.lc.Peer.send(f)
						}
					} else if kind == "read-limit" {
						c.lc.C.SetReadLimit(100)
						for _, f := range fr {
							c.lc.Peer.send(f)
						}
					} else {
						c.lc.Peer.send(fr[0])
					}
					switch kind {
					case "close":
						c.lc.Peer.send(ref.Frame{Fin: true, Opcode: ref.OpClose, Payload: ref.ClosePayload(1000, "")})
					case "violation":
						c.lc.Peer.send(ref.Frame{Fin: true, Opcode: 0x5, Payload: []byte("reserved")})
					case "ctx-expiry":
						ctx, cancel = context.WithTimeout(ctx, time.Second)
					}
					step("wsjsonCut(c%d,%s)", c.id, kind)
					var v map[string]any
					var err error
					s.call(rt, "wsjson.Read of a document that is cut short", func() {
						defer cancel()
						err = wsjson.Read(ctx, c.lc.C, &v)
					})
					if err == nil {
						rt.Fatalf("C07: conn %d: wsjson.Read of a document cut short by %s returned nil\nsteps: %v", c.id, kind, s.steps)
					}
					c.alive = false
					s.release(c.id, "wsjson-cut-"+kind)
				},
				"wsjson": func(rt *rapid.T) {
					c := s.pick(rt, func(c *c07Conn) bool { return c.alive && c.cur == nil && len(c.pending) == 0 })
					if c == nil {
						return
					}
					pad := rapid.SampledFrom([]int{0, 10, 3000}).Draw(rt, "pad")
					doc := fmt.Sprintf(`{"conn":%d,"seq":%d,"pad":"%s"}`, c.id, c.seq, bytes.Repeat([]byte{byte('a' + c.id)}, pad))
					c.seq++
					for _, f := range c.frames([]byte(doc), true, 1, true) {
						c.lc.Peer.send(f)
					}
					step("wsjson(c%d,pad=%d)", c.id, pad)
					var v struct {
						Conn, Seq int
						Pad       string
					}
					var err error
					s.call(rt, "wsjson.Read", func() { err = wsjson.Read(context.Background(), c.lc.C, &v) })
					if err != nil || v.Conn != c.id || v.Seq != c.seq-1 || len(v.Pad) != pad {
						rt.Fatalf("C07: conn %d: wsjson.Read returned %+v, %v for %s\nsteps: %v", c.id, v, err, trunc([]byte(doc)), s.steps)
					}
					s.release(c.id, "wsjson")
				},
				"connRead": func(rt *rapid.T) {
					// Conn.Read hands out a whole message; the application keeps it
					c := s.pick(rt, func(c *c07Conn) bool { return c.alive && c.cur == nil && len(c.pending) > 0 })
					if c == nil {
						return
					}
					step("connRead(c%d)", c.id)
					var got []byte
					var err error
					s.call(rt, "Conn.Read", func() { _, got, err = c.lc.C.Read(context.Background()) })
					want := c.pending[0]
					c.pending = c.pending[1:]
					if len(c.pcomp) > 0 {
						c.pcomp = c.pcomp[1:]
					}
					if len(c.pfrags) > 0 {
						c.pfrags = c.pfrags[1:]
					}
					if err != nil || !bytes.Equal(got, want) {
						rt.Fatalf("C07: conn %d (%s): Conn.Read returned %d bytes, err=%v; want this connection's own message of %d bytes\nsteps: %v", c.id, c.mode.Name, len(got), err, len(want), s.steps)
					}
					s.kept = append(s.kept, c07Kept{c.id, got, want})
					s.release(c.id, "eof")
				},
				"probeWindow": func(rt *rapid.T) {
					// a hostile peer asks for bytes that lie before the start of this
					// connection's own compressed history: whatever the window still
					// holds from another (closed) connection would come out
					c := s.pick(rt, func(c *c07Conn) bool {
						return c.alive && c.cur == nil && len(c.pending) == 0 && c.lc.Agreed.Deflate && c.lc.Agreed.SenderTakeover(!c.mode.Client) && c.compHist+1258 <= 32768
					})
					if c == nil {
						return
					}
					dist := c.compHist + rapid.SampledFrom([]int{1, 2, 258, 259, 1258}).Draw(rt, "beyond")
					if dist > 32768 {
						dist = 32768
					}
					step("probeWindow(c%d,dist=%d,ownHistory=%d)", c.id, dist, c.compHist)
					c.lc.Peer.send(ref.Frame{Fin: true, Opcode: ref.OpBinary, Rsv1: true, Payload: ref.CraftBackref(dist)})
					var got []byte
					s.call(rt, "read of a crafted back-reference", func() {
						_, r, err := c.lc.C.Reader(context.Background())
						if err != nil {
							return
						}
						got, _ = io.ReadAll(r)
					})
					if len(got) > 0 {
						rt.Fatalf("C07: conn %d (%s): a compressed message that only references data from before this connection's own history (distance %d, own history %d bytes) was inflated to %d bytes: %x... - the window still held another connection's data\nsteps: %v", c.id, c.mode.Name, dist, c.compHist, len(got), got[:min(16, len(got))], s.steps)
					}
					c.alive = false // the stream was malformed for this connection: it is done
					s.release(c.id, "probe")
				},
				"idle": func(rt *rapid.T) {
					e.sleep(time.Millisecond) // always enabled, so a run in which every connection has ended can finish
				},
				"fresh": func(rt *rapid.T) {
					if len(s.conns) >= 6 {
						return
					}
					m := rapid.SampledFrom(c07Modes).Draw(rt, "mode")
					if !m.Client && rapid.IntRange(0, 2).Draw(rt, "earlyData") == 0 {
						// the client's first message arrives in the same segment as its handshake request and waits in
						// the hijacked reader's buffer until the application gets round to reading it - other
						// connections are opened and read in the meantime
						id := len(s.conns)
						payload := tagged(id, 0, rapid.SampledFrom([]int{17, 300, 3000}).Draw(rt, "earlySize"))
						_, wire, _ := finishMasking([]ref.Frame{{Fin: true, Opcode: ref.OpBinary, Payload: payload}}, false)
						c := s.openConn(rt, m, wire)
						c.seq = 1
						c.pending = append(c.pending, payload)
						c.pfrags = append(c.pfrags, 1)
						c.pcomp = append(c.pcomp, false)
						step("fresh(c%d,%s,early=%d)", c.id, m.Name, len(payload))
						return
					}
					c := s.openConn(rt, m)
					step("fresh(c%d,%s)", c.id, m.Name)
				},
				"write": func(rt *rapid.T) {
					c := s.pick(rt, func(c *c07Conn) bool { return c.open && c.alive })
					if c == nil {
						return
					}
					n := rapid.SampledFrom(c07Sizes).Draw(rt, "size")
					payload := tagged(c.id+16, len(c.written), n)
					step("write(c%d,%d)", c.id, n)
					var err error
					s.call(rt, "Write", func() { err = c.lc.C.Write(context.Background(), websocket.MessageBinary, payload) })
					if err != nil {
						rt.Fatalf("C07: conn %d: Write failed: %v\nsteps: %v", c.id, err, s.steps)
					}
					c.written = append(c.written, payload)
				},
			})
			// drain: every live connection still delivers exactly its own remaining messages
			for _, c := range s.conns {
				for c.alive && (c.cur != nil || len(c.pending) > 0) {
					s.readSome(rt, c, 4096)
				}
			}
			for _, c := range s.conns {
				if c.open {
					s.call(rt, "final Close", func() { c.lc.C.Close(websocket.StatusNormalClosure, "") })
				}
				c.lc.Peer.waitEOF(30 * time.Second)
				rep, verr := ref.ValidateStream(c.lc.End.InRecording(), ref.StreamOpts{FromClient: c.mode.Client, Deflate: c.lc.Agreed.Deflate, Takeover: c.lc.Agreed.SenderTakeover(c.mode.Client)}, true)
				if verr != nil {
					rt.Fatalf("C07: conn %d: emitted stream invalid: %v\nsteps: %v", c.id, verr, s.steps)
				}
				if len(rep.Messages) != len(c.written) {
					rt.Fatalf("C07: conn %d: %d messages on the wire, %d written\nsteps: %v", c.id, len(rep.Messages), len(c.written), s.steps)
				}
				for i, m := range rep.Messages {
					if !bytes.Equal(m.Payload, c.written[i]) {
						rt.Fatalf("C07: conn %d: written message %d differs on the wire (compression state shared?)\nsteps: %v", c.id, i, s.steps)
					}
				}
			}
			for _, k := range s.kept {
				if !bytes.Equal(k.data, k.want) {
					rt.Fatalf("C07: the message Conn.Read returned on conn %d changed after later reads (it aliases a pooled buffer): first difference at %d\nsteps: %v", k.conn, firstDiff(k.data, k.want), s.steps)
				}
			}
			classes := []string{}
			for k := range s.releaseKinds {
				classes = append(classes, "release:"+k)
			}
			if s.crossReuse > 0 {
				classes = append(classes, "cross-connection-pool-reuse")
			}
			rec.Case(s.crossReuse > 0, fmt.Sprint(s.steps), classes...)
			if rec.WantSample() {
				rec.Sample(s.steps)
			}
		})
	})
}

// TestC07Parallel: one goroutine per connection, all connections hammering the
// pools at once (meant for the -race build): each connection only ever sees its
// own bytes.
func TestC07Parallel(t *testing.T) {
	rec := evid.For("C07")
	checkProp(t, func(rt *rapid.T) {
		nConns := rapid.IntRange(2, 5).Draw(rt, "nConns")
		type plan struct {
			mode  c03Mode
			sizes []int
			bufs  []int
			end   string
		}
		plans := make([]plan, nConns)
		for i := range plans {
			plans[i].mode = rapid.SampledFrom(c07Modes[:4]).Draw(rt, "mode")
			for j := rapid.IntRange(1, 6).Draw(rt, "nMsgs"); j > 0; j-- {
				plans[i].sizes = append(plans[i].sizes, rapid.SampledFrom(c07Sizes).Draw(rt, "size"))
				plans[i].bufs = append(plans[i].bufs, rapid.SampledFrom(c07Bufs).Draw(rt, "buf"))
			}
			plans[i].end = rapid.SampledFrom([]string{"close", "closenow", "peer-close-mid", "read-after-eof"}).Draw(rt, "end")
		}
		var fail string
		var fmu sync.Mutex
		setFail := func(s string) {
			fmu.Lock()
			if fail == "" {
				fail = s
			}
			fmu.Unlock()
		}
		rapid.SyncTest(rt, func(rt *rapid.T) {
			e := newEnv(rt)
			defer e.Teardown()
			s := &c07State{e: e, released: map[int]bool{}, releaseKinds: map[string]int{}}
			for _, p := range plans {
				s.openConn(rt, p.mode)
			}
			var dones []<-chan struct{}
			for i, c := range s.conns {
				i, c := i, c
				p := plans[i]
				dones = append(dones, e.Call(func() {
					ctx := context.Background()
					var last io.Reader
					for k, n := range p.sizes {
						payload := tagged(c.id, k, n)
						if k%2 == 1 {
							payload = taggedRepeat(c.id, k, n)
						}
						for _, f := range c.frames(payload, k%3 != 2, 1+k%3, false) {
							c.lc.Peer.send(f)
						}
						_, r, err := c.lc.C.Reader(ctx)
						if err != nil {
							setFail(fmt.Sprintf("conn %d: Reader: %v", c.id, err))
							return
						}
						buf := make([]byte, p.bufs[k])
						off := 0
						for {
							m, err := r.Read(buf)
							if off+m > len(payload) || !bytes.Equal(buf[:m], payload[off:off+m]) {
								setFail(fmt.Sprintf("conn %d (%s): message %d: bytes at offset %d are not this connection's own (first byte %#x)", c.id, p.mode.Name, k, off, firstByte(buf[:m])))
								return
							}
							off += m
							if err == io.EOF {
								break
							}
							if err != nil {
								setFail(fmt.Sprintf("conn %d: read error %v", c.id, err))
								return
							}
						}
						if off != len(payload) {
							setFail(fmt.Sprintf("conn %d (%s): message %d ended after %d of %d bytes", c.id, p.mode.Name, k, off, len(payload)))
							return
						}
						last = r
					}
					switch p.end {
					case "close":
						c.lc.C.Close(websocket.StatusNormalClosure, "")
					case "closenow":
						c.lc.C.CloseNow()
					case "read-after-eof":
						for j := 0; j < 3; j++ {
							if m, _ := last.Read(make([]byte, 256)); m != 0 {
								setFail(fmt.Sprintf("conn %d: Read after EOF returned %d bytes", c.id, m))
								return
							}
							e.sleep(time.Millisecond)
						}
					case "peer-close-mid":
						payload := tagged(c.id, 99, 5000)
						fr := c.frames(payload, true, 3, false)
						c.lc.Peer.send(fr[0])
						c.lc.Peer.send(ref.Frame{Fin: true, Opcode: ref.OpClose, Payload: ref.ClosePayload(1001, "")})
						_, r, err := c.lc.C.Reader(ctx)
						if err == nil {
							var got []byte
							buf := make([]byte, 100)
							for {
								m, err := r.Read(buf)
								got = append(got, buf[:m]...)
								if err != nil {
									break
								}
							}
							if !bytes.HasPrefix(payload, got) {
								setFail(fmt.Sprintf("conn %d: bytes before a mid-message Close are not its own", c.id))
							}
						}
					}
				}))
			}
			for _, d := range dones {
				if !within(d, 120*time.Second) {
					setFail("a connection's program did not finish within 120 s")
				}
			}
			if ps := e.Panics(); len(ps) > 0 {
				setFail("library panicked: " + ps[0])
			}
		})
		shape := "parallel"
		for _, p := range plans {
			shape += fmt.Sprintf("|%s/%v/%s", p.mode.Name, p.sizes, p.end)
		}
		rec.Case(true, shape, "parallel")
		if fail != "" {
			rt.Fatalf("C07 parallel: %s", fail)
		}
	})
}

var _ = synctest.Wait

// Regression replay (finding D7): read again after EOF while another
// connection has picked up the pooled decompressor.
func TestC07Regress(t *testing.T) {
	for iter := 0; iter < 30; iter++ {
		var msg string
		synctest.Test(t, func(t *testing.T) {
			e := newEnv(t)
			defer e.Teardown()
			s := &c07State{e: e, released: map[int]bool{}, releaseKinds: map[string]int{}}
			a := s.openConn(t, c07Modes[iter%4])
			b := s.openConn(t, c07Modes[(iter+1)%4])
			pa, pb := tagged(0, 0, 3000), tagged(1, 0, 3000)
			for _, f := range a.frames(pa, true, 1, false) {
				a.lc.Peer.send(f)
			}
			for _, f := range b.frames(pb, true, 1, false) {
				b.lc.Peer.send(f)
			}
			d := e.Call(func() {
				ctx := context.Background()
				_, ra, err := a.lc.C.Reader(ctx)
				if err != nil {
					msg = err.Error()
					return
				}
				if got, err := io.ReadAll(ra); err != nil || !bytes.Equal(got, pa) {
					msg = fmt.Sprintf("A's message: %v", err)
					return
				}
				_, rb, err := b.lc.C.Reader(ctx)
				if err != nil {
					msg = err.Error()
					return
				}
				first := make([]byte, 100)
				n1, _ := rb.Read(first)
				stolen := make([]byte, 100)
				if n, _ := ra.Read(stolen); n != 0 {
					msg = fmt.Sprintf("A's finished reader returned %d bytes (tag %#x) after B started its message", n, stolen[0])
					return
				}
				rest, err := io.ReadAll(rb)
				if got := append(first[:n1], rest...); err != nil || !bytes.Equal(got, pb) {
					msg = fmt.Sprintf("B's message arrived with %d of %d bytes, err=%v", len(got), len(pb), err)
				}
			})
			if !within(d, 30*time.Second) {
				msg = "did not finish"
			}
		})
		if msg != "" {
			failCase(t, "C07", map[string]any{"regress": "D7-read-after-eof-steals-from-other-connection", "iteration": iter}, "%s", msg)
		}
	}
	evid.For("C07").Case(true, "regress|D7", "regression-replay")
}

// TestC07WriteFault: the WRITING side's pooled compressors. Connection A (no context takeover
// on its sending side, so it takes a compressor from the pool per message) loses its transport
// while a compressed message is on its way out - after k bytes, k enumerated from "nothing" to
// "all but the last byte", which with messages this small is always during the final flush.
// Then B and C stream compressed messages with their chunks interleaved (B1 C1 B2 C2). Each
// peer must receive exactly the message written on its own connection: whatever A's failed
// write and its teardown did with its compressor must not hand one compressor to both.
// One P, so that sync.Pool gives the object that was put last to whoever asks next.
func TestC07WriteFault(t *testing.T) {
	rec := evid.For("C07")
	old := runtime.GOMAXPROCS(1)
	defer runtime.GOMAXPROCS(old)
	for _, modeName := range []string{"server/mode-no-ctx", "client/mode-no-ctx", "server/takeover"} {
		var mode c03Mode
		for _, m := range c03Modes {
			if m.Name == modeName {
				mode = m
			}
		}
		for _, api := range []string{"write", "writer"} {
			for _, k := range []int{0, 1, 2, 6, 14, 40, 100, 400, 1 << 20} {
				desc := fmt.Sprintf("writefault|%s|%s|budget=%d", modeName, api, k)
				var msg string
				synctest.Test(t, func(t *testing.T) {
					e := newEnv(t)
					defer e.Teardown()
					ctx := context.Background()
					a, err := e.open(connSpec{Client: mode.Client, Mode: mode.Mode, Ext: mode.Ext, Threshold: 64})
					if err != nil {
						msg = "handshake A: " + err.Error()
						return
					}
					a.Peer.start(e)
					a.End.SetInBudget(int64(k))
					amsg := tagged(1, 0, 3000)
					var werr error
					wd := e.Call(func() {
						if api == "write" {
							werr = a.C.Write(ctx, websocket.MessageBinary, amsg)
							return
						}
						w, err := a.C.Writer(ctx, websocket.MessageBinary)
						if err != nil {
							werr = err
							return
						}
						if _, werr = w.Write(amsg[:1500]); werr != nil {
							return
						}
						if _, werr = w.Write(amsg[1500:]); werr != nil {
							return
						}
						werr = w.Close()
					})
					synctest.Wait()
					select {
					case <-wd:
					default:
						a.End.Close() // the transport is lost with A's message half out
						if !within(wd, 60*time.Second) {
							msg = "A's write did not return after its transport was lost"
							return
						}
					}
					a.C.CloseNow()
					open := func(name string) *libConn {
						lc, err := e.open(connSpec{Client: mode.Client, Mode: mode.Mode, Ext: mode.Ext, Threshold: 64})
						if err != nil {
							msg = "handshake " + name + ": " + err.Error()
							return nil
						}
						lc.Peer.start(e)
						return lc
					}
					b, c := open("B"), open("C")
					if b == nil || c == nil {
						return
					}
					bm, cm := tagged(2, 0, 4000), tagged(3, 0, 4000)
					wb, err1 := b.C.Writer(ctx, websocket.MessageBinary)
					wc, err2 := c.C.Writer(ctx, websocket.MessageBinary)
					if err1 != nil || err2 != nil {
						msg = fmt.Sprintf("Writer on B / C failed: %v / %v", err1, err2)
						return
					}
					for _, st := range []struct {
						w io.WriteCloser
						p []byte
					}{{wb, bm[:2000]}, {wc, cm[:2000]}, {wb, bm[2000:]}, {wc, cm[2000:]}} {
						if _, err := st.w.Write(st.p); err != nil {
							msg = "a Write on B or C failed: " + err.Error()
							return
						}
					}
					if err := wb.Close(); err != nil {
						msg = "B's Close failed: " + err.Error()
						return
					}
					if err := wc.Close(); err != nil {
						msg = "C's Close failed: " + err.Error()
						return
					}
					synctest.Wait()
					for _, x := range []struct {
						name string
						lc   *libConn
						want []byte
					}{{"B", b, bm}, {"C", c, cm}} {
						rep, verr := ref.ValidateStream(x.lc.End.InRecording(), ref.StreamOpts{FromClient: mode.Client, Deflate: x.lc.Agreed.Deflate, Takeover: x.lc.Agreed.SenderTakeover(mode.Client)}, false)
						if verr != nil {
							msg = fmt.Sprintf("what connection %s emitted is not a well-formed stream: %v", x.name, verr)
							return
						}
						if len(rep.Messages) != 1 || !bytes.Equal(rep.Messages[0].Payload, x.want) {
							n := -1
							if len(rep.Messages) > 0 {
								n = len(rep.Messages[0].Payload)
							}
							msg = fmt.Sprintf("the peer of connection %s received %d message(s), the first of %d bytes; %s wrote one message of %d bytes (A's write failed with: %v)", x.name, len(rep.Messages), n, x.name, len(x.want), werr)
							return
						}
					}
				})
				rec.Case(true, desc, "compressed-write-loses-its-transport-then-two-interleaved-compressed-writers")
				if msg != "" {
					failCase(t, "C07", desc, "%s", msg)
				}
			}
		}
	}
}
