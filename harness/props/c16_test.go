package props

import (
	"context"
	"errors"
	"fmt"
	"sort"
	"sync"
	"testing"
	"testing/synctest"
	"time"

	"nhooyr.io/websocket"
	"nhooyr.io/websocket/wsjson"
	"pgregory.net/rapid"
	"verif/harness/evid"
	"verif/harness/ref"
)

// C16 — nothing follows a Close frame: no data frames and no second Close frame.

func (e *env) sleep(d time.Duration) bool {
	if d <= 0 {
		select {
		case <-e.done:
			return false
		default:
			return true
		}
	}
	t := time.NewTimer(d)
	defer t.Stop()
	select {
	case <-t.C:
		return true
	case <-e.done:
		return false
	}
}

type c16Msg struct {
	Len       int
	UseWriter bool
	Chunks    []int
	Gap       time.Duration // pause before this message
	ChunkGap  time.Duration // pause between Writer chunks
	Timeout   time.Duration // C05: the writer's own context deadline for this message (0 = none)
	YieldAt   int           // C05: the writer's context yields at its k-th Done() call (0 = never)
}

type c16Writer struct {
	Start time.Duration
	Msgs  []c16Msg
}

type c16Case struct {
	Mode     c03Mode
	Writers  []c16Writer
	Pingers  []c16Writer // Len unused
	Cause    string
	CauseAt  time.Duration
	Echo     string // immediate | late | never
	GateAt   time.Duration
	GateFor  time.Duration // 0 = no gate
	Final    string        // Close | CloseNow
	FinalGap time.Duration
	// PeerPings: how many Pings the peer sends when it sees the library's Close frame,
	// before it sends (or withholds) its own - legal until the peer has closed too.
	PeerPings int
	// FaultOnClose: the transport reports an error for the Write call that carried the library's first Close
	// frame although the bytes went out (a transient fault): the frame IS on the wire, so nothing may follow it
	FaultOnClose bool
	// SecondClose > 0: that long after the cause another goroutine calls Close as well (a deferred Close somewhere
	// else in the application), typically while the first closer still waits for the peer's answer
	SecondClose time.Duration
}

var c16Causes = []string{"local-close", "local-close", "local-close-1005", "peer-close", "peer-close-empty", "violation", "read-limit", "closeread-data", "netconn-type", "wsjson"}

var c16Modes = []c03Mode{
	{"server/off", false, websocket.CompressionDisabled, ""},
	{"client/off", true, websocket.CompressionDisabled, ""},
	{"server/ct+plain-offer", false, websocket.CompressionContextTakeover, "permessage-deflate"},
	{"client/ct+plain-resp", true, websocket.CompressionContextTakeover, "permessage-deflate"},
	{"client/nct+both-resp", true, websocket.CompressionNoContextTakeover, "permessage-deflate; client_no_context_takeover; server_no_context_takeover"},
}

func drawDur(rt *rapid.T, label string) time.Duration {
	return rapid.SampledFrom([]time.Duration{0, 0, time.Microsecond, time.Millisecond, 10 * time.Millisecond, 100 * time.Millisecond, time.Second, 3 * time.Second}).Draw(rt, label)
}

func genC16(rt *rapid.T) c16Case {
	var c c16Case
	c.Mode = rapid.SampledFrom(c16Modes).Draw(rt, "mode")
	nw := rapid.IntRange(1, 4).Draw(rt, "nWriters")
	for i := 0; i < nw; i++ {
		w := c16Writer{Start: drawDur(rt, "wStart")}
		nm := rapid.IntRange(1, 4).Draw(rt, "nMsgs")
		for j := 0; j < nm; j++ {
			m := c16Msg{Len: rapid.SampledFrom([]int{0, 1, 100, 200, 5000, 20000, 70000, 140000}).Draw(rt, "len"), Gap: drawDur(rt, "gap")}
			m.UseWriter = rapid.Bool().Draw(rt, "useWriter")
			if m.UseWriter {
				nc := rapid.IntRange(1, 4).Draw(rt, "nChunks")
				for k := 0; k < nc; k++ {
					m.Chunks = append(m.Chunks, rapid.SampledFrom([]int{0, 1, 150, 4096, 6000}).Draw(rt, "chunk"))
				}
				m.ChunkGap = drawDur(rt, "chunkGap")
			}
			w.Msgs = append(w.Msgs, m)
		}
		c.Writers = append(c.Writers, w)
	}
	np := rapid.IntRange(0, 2).Draw(rt, "nPingers")
	for i := 0; i < np; i++ {
		p := c16Writer{Start: drawDur(rt, "pStart")}
		for j := rapid.IntRange(1, 3).Draw(rt, "nPings"); j > 0; j-- {
			p.Msgs = append(p.Msgs, c16Msg{Gap: drawDur(rt, "pGap")})
		}
		c.Pingers = append(c.Pingers, p)
	}
	c.Cause = rapid.SampledFrom(c16Causes).Draw(rt, "cause")
	c.CauseAt = drawDur(rt, "causeAt")
	// how the peer answers the library's Close frame: with the same payload (at once or 3 s later), not at all, or with a
	// Close frame of its own that differs - another code, the code without the reason, no payload (closes that crossed)
	c.Echo = rapid.SampledFrom([]string{"immediate", "immediate", "late", "never", "other-code", "code-only", "empty"}).Draw(rt, "echo")
	if rapid.IntRange(0, 3).Draw(rt, "gate") == 0 {
		c.GateAt = drawDur(rt, "gateAt")
		c.GateFor = rapid.SampledFrom([]time.Duration{time.Millisecond, time.Second, 4 * time.Second, 6 * time.Second}).Draw(rt, "gateFor")
	}
	c.Final = rapid.SampledFrom([]string{"Close", "CloseNow"}).Draw(rt, "final")
	c.FinalGap = rapid.SampledFrom([]time.Duration{0, time.Second, 12 * time.Second}).Draw(rt, "finalGap")
	c.PeerPings = rapid.SampledFrom([]int{0, 0, 1, 2}).Draw(rt, "peerPingsAfterClose")
	c.FaultOnClose = rapid.IntRange(0, 4).Draw(rt, "transportFaultOnTheCloseFrame") == 0
	if rapid.IntRange(0, 2).Draw(rt, "secondCloser") == 0 {
		c.SecondClose = rapid.SampledFrom([]time.Duration{time.Millisecond, 100 * time.Millisecond, time.Second, 4 * time.Second}).Draw(rt, "secondCloseAfter")
	}
	return c
}

type c16Result struct {
	NonTrivial   bool
	OpAfterClose bool
	MsgOpen      bool
	CloseSeen    bool
	Frames       int
}

func runC16(t fataler, c c16Case) (string, c16Result) {
	var res c16Result
	e := newEnv(t)
	defer e.Teardown()
	lc, err := e.open(connSpec{Client: c.Mode.Client, Mode: c.Mode.Mode, Ext: c.Mode.Ext})
	if err != nil {
		return "handshake: " + err.Error(), res
	}
	p := lc.Peer
	conn := lc.C
	ctx := context.Background()
	t0 := time.Now()
	if c.FaultOnClose {
		fired := false
		lc.Lib.SetWriteHook(func(rec []byte) error {
			if fired {
				return nil
			}
			frames, _, _ := ref.ParseFrames(rec)
			for _, f := range frames {
				if f.Opcode == ref.OpClose {
					fired = true
					return errors.New("transient transport error (the segment did go out)")
				}
			}
			return nil
		})
	}
	p.onFrame = func(f ref.Frame) {
		switch f.Opcode {
		case ref.OpPing:
			p.send(ref.Frame{Fin: true, Opcode: ref.OpPong, Payload: f.Payload})
		case ref.OpClose:
			for i := 0; i < c.PeerPings; i++ {
				p.send(ref.Frame{Fin: true, Opcode: ref.OpPing, Payload: []byte{'p', byte(i)}})
			}
			switch c.Echo {
			case "immediate":
				p.send(ref.Frame{Fin: true, Opcode: ref.OpClose, Payload: f.Payload})
			case "other-code":
				p.send(ref.Frame{Fin: true, Opcode: ref.OpClose, Payload: ref.ClosePayload(1001, "going away too")})
			case "code-only":
				pl := f.Payload
				if len(pl) > 2 {
					pl = pl[:2]
				}
				p.send(ref.Frame{Fin: true, Opcode: ref.OpClose, Payload: pl})
			case "empty":
				p.send(ref.Frame{Fin: true, Opcode: ref.OpClose})
			case "late":
				pl := f.Payload
				e.Go(func() {
					if e.sleep(3 * time.Second) {
						p.send(ref.Frame{Fin: true, Opcode: ref.OpClose, Payload: pl})
					}
				})
			}
		}
	}
	p.start(e)

	// operation log for the non-trivial rule
	var mu sync.Mutex
	type opRec struct {
		start, end time.Time
		writerMsg  bool
	}
	var opsLog []*opRec
	logOp := func(writerMsg bool) *opRec {
		r := &opRec{start: time.Now(), writerMsg: writerMsg}
		mu.Lock()
		opsLog = append(opsLog, r)
		mu.Unlock()
		return r
	}

	// the reading side
	switch c.Cause {
	case "closeread-data":
		conn.CloseRead(ctx)
	case "netconn-type":
		nc := websocket.NetConn(ctx, conn, websocket.MessageBinary)
		e.Go(func() {
			b := make([]byte, 512)
			for {
				if _, err := nc.Read(b); err != nil {
					return
				}
			}
		})
	case "wsjson":
		e.Go(func() {
			for {
				var v map[string]int
				if err := wsjson.Read(ctx, conn, &v); err != nil {
					return
				}
			}
		})
	default:
		if c.Cause == "read-limit" {
			conn.SetReadLimit(10)
		}
		e.Go(func() {
			for {
				if _, _, err := conn.Read(ctx); err != nil {
					return
				}
			}
		})
	}

	for wi, w := range c.Writers {
		wi, w := wi, w
		e.Go(func() {
			if !e.sleep(w.Start) {
				return
			}
			for mi, m := range w.Msgs {
				if !e.sleep(m.Gap) {
					return
				}
				payload := tagged(wi, mi, m.Len)
				r := logOp(m.UseWriter)
				var err error
				if !m.UseWriter {
					err = conn.Write(ctx, websocket.MessageBinary, payload)
				} else {
					var wr interface {
						Write([]byte) (int, error)
						Close() error
					}
					wr, err = conn.Writer(ctx, websocket.MessageBinary)
					if err == nil {
						rest := payload
						for _, ch := range m.Chunks {
							if ch > len(rest) {
								ch = len(rest)
							}
							if _, err = wr.Write(rest[:ch]); err != nil {
								break
							}
							rest = rest[ch:]
							if !e.sleep(m.ChunkGap) {
								return
							}
						}
						if err == nil {
							if _, err = wr.Write(rest); err == nil {
								err = wr.Close()
							}
						}
					}
				}
				mu.Lock()
				r.end = time.Now()
				mu.Unlock()
				if err != nil {
					return
				}
			}
		})
	}
	for _, pg := range c.Pingers {
		pg := pg
		e.Go(func() {
			if !e.sleep(pg.Start) {
				return
			}
			for _, m := range pg.Msgs {
				if !e.sleep(m.Gap) {
					return
				}
				r := logOp(false)
				pctx, cancel := context.WithTimeout(ctx, 4*time.Second)
				err := conn.Ping(pctx)
				cancel()
				mu.Lock()
				r.end = time.Now()
				mu.Unlock()
				if err != nil {
					return
				}
			}
		})
	}
	if c.GateFor > 0 {
		e.Go(func() {
			if !e.sleep(c.GateAt) {
				return
			}
			lc.End.SetInBudget(3) // accept three more bytes, then block the library's writes
			if e.sleep(c.GateFor) {
				lc.End.SetInBudget(-1)
			}
		})
	}
	if c.SecondClose > 0 {
		e.Go(func() {
			if e.sleep(c.CauseAt + c.SecondClose) {
				conn.Close(websocket.StatusGoingAway, "second closer")
			}
		})
	}
	// the cause
	causeDone := e.Call(func() {
		if !e.sleep(c.CauseAt) {
			return
		}
		switch c.Cause {
		case "local-close":
			conn.Close(websocket.StatusNormalClosure, "local close")
		case "local-close-1005":
			conn.Close(websocket.StatusNoStatusRcvd, "") // a Close frame with an empty payload
		case "peer-close":
			p.send(ref.Frame{Fin: true, Opcode: ref.OpClose, Payload: ref.ClosePayload(1001, "peer going away")})
		case "peer-close-empty":
			p.send(ref.Frame{Fin: true, Opcode: ref.OpClose}) // echoed with an empty payload
		case "violation":
			p.send(ref.Frame{Fin: true, Opcode: 0x3, Payload: []byte("reserved")})
		case "read-limit":
			p.send(ref.Frame{Fin: true, Opcode: ref.OpBinary, Payload: make([]byte, 100)})
		case "closeread-data":
			p.send(ref.Frame{Fin: true, Opcode: ref.OpBinary, Payload: []byte("unexpected data")})
		case "netconn-type":
			p.send(ref.Frame{Fin: true, Opcode: ref.OpText, Payload: []byte("text to a binary NetConn")})
		case "wsjson":
			p.send(ref.Frame{Fin: true, Opcode: ref.OpText, Payload: []byte("{not json")})
		}
	})
	if !within(causeDone, 120*time.Second) {
		return "closing operation did not return within 120 s (virtual)", res
	}
	// let the consequences play out, then the user closes, as every user must
	e.sleep(20*time.Second + c.FinalGap)
	finalDone := e.Call(func() {
		if c.Final == "Close" {
			conn.Close(websocket.StatusGoingAway, "done")
		} else {
			conn.CloseNow()
		}
	})
	if !within(finalDone, 120*time.Second) {
		return "final " + c.Final + " did not return within 120 s (virtual)", res
	}
	lc.End.SetInBudget(-1)
	if !p.waitEOF(60 * time.Second) {
		return "transport still open 60 s after " + c.Final + " returned", res
	}
	if ps := e.Panics(); len(ps) > 0 {
		return "library panicked: " + ps[0], res
	}
	wire := lc.End.InRecording()
	frames, _, perr := ref.ParseFrames(wire)
	if perr != nil {
		return "emitted stream unparsable: " + perr.Error(), res
	}
	_, times := p.snapshot()
	res.Frames = len(frames)
	first := -1
	for i, f := range frames {
		if f.Opcode == ref.OpClose {
			first = i
			break
		}
	}
	if first >= 0 {
		res.CloseSeen = true
		var closeAt time.Time
		if first < len(times) {
			closeAt = times[first]
		}
		mu.Lock()
		for _, r := range opsLog {
			if !closeAt.IsZero() && r.start.After(closeAt) {
				res.OpAfterClose = true
			}
			if !closeAt.IsZero() && r.writerMsg && r.start.Before(closeAt) && (r.end.IsZero() || r.end.After(closeAt)) {
				res.MsgOpen = true
			}
			if !closeAt.IsZero() && r.start.Equal(closeAt) {
				res.OpAfterClose = true
			}
		}
		mu.Unlock()
		res.NonTrivial = res.OpAfterClose || res.MsgOpen
		for j := first + 1; j < len(frames); j++ {
			f := frames[j]
			switch f.Opcode {
			case ref.OpCont, ref.OpText, ref.OpBinary:
				return fmt.Sprintf("data frame (opcode %d, %d bytes) follows the Close frame (frame %d of %d; Close payload %x; elapsed %v)", f.Opcode, len(f.Payload), j, len(frames), frames[first].Payload, time.Since(t0)), res
			case ref.OpClose:
				return fmt.Sprintf("second Close frame (payload %x) follows the first (payload %x) at frame %d of %d", f.Payload, frames[first].Payload, j, len(frames)), res
			}
		}
	}
	return "", res
}

func TestC16(t *testing.T) {
	rec := evid.For("C16")
	rec.Rule = "rapid-generated schedules in virtual time: 1-4 writers (Write and multi-chunk Writer with pauses between chunks) and 0-2 pingers starting at drawn instants, a close cause {local Close, peer Close frame, protocol violation, read-limit excess, CloseRead + data message, NetConn type mismatch, wsjson decode failure} at a drawn instant, peer echo {immediate, late, never} preceded by 0-2 Pings from the peer, optional transport gate holding the library's writes, then the user's final Close or CloseNow; the raw peer records every frame until transport EOF. Non-trivial: a write/ping call was issued at or after the instant the Close frame was written, or a Writer message was open at that instant. distinct = hash(mode, cause, echo, final, gate, per-writer op shapes and timing classes)."
	checkProp(t, func(rt *rapid.T) {
		c := genC16(rt)
		var msg string
		var res c16Result
		rapid.SyncTest(rt, func(rt *rapid.T) {
			msg, res = runC16(rt, c)
		})
		shape := fmt.Sprintf("%s|%s|%s|%s|%v|%v|%v", c.Mode.Name, c.Cause, c.Echo, c.Final, c.GateFor, c.CauseAt, c.FinalGap)
		for _, w := range c.Writers {
			shape += fmt.Sprintf("|w%v", w.Start)
			for _, m := range w.Msgs {
				shape += fmt.Sprintf(",%d/%v/%d/%v", lenClass(m.Len), m.UseWriter, len(m.Chunks), m.Gap)
			}
		}
		classes := []string{"cause:" + c.Cause, "echo:" + c.Echo, "final:" + c.Final, "mode:" + c.Mode.Name, map[bool]string{true: "transport-reports-an-error-for-the-write-that-carried-the-close-frame"}[c.FaultOnClose], map[bool]string{true: "a-second-Close-call-shortly-after-the-cause"}[c.SecondClose > 0]}
		if res.OpAfterClose {
			classes = append(classes, "op-issued-after-close-frame")
		}
		if res.MsgOpen {
			classes = append(classes, "writer-message-open-at-close-frame")
		}
		if c.GateFor > 0 {
			classes = append(classes, "gate")
		}
		if !res.CloseSeen {
			classes = append(classes, "no-close-frame-on-wire")
		}
		rec.Case(res.NonTrivial, shape, classes...)
		if rec.WantSample() {
			rec.Sample(fmt.Sprintf("%+v", c))
		}
		if msg != "" {
			rt.Fatalf("C16 %+v: %s", c, msg)
		}
	})
}

// Regression replays of the defects this check found on the pinned tree.
func TestC16Regress(t *testing.T) {
	cases := map[string]c16Case{
		// D1: the initiator echoed the peer's echo of its own Close frame.
		"D1-initiator-echoes-the-echo": {Mode: c16Modes[1], Cause: "local-close", Echo: "immediate", Final: "Close"},
		// D2: after a protocol error the library sent Close 1002 but left the
		// connection open; a later Write and the user's Close followed it.
		"D2-write-and-close-after-error-close": {Mode: c16Modes[0], Cause: "violation", Echo: "never", Final: "Close",
			Writers: []c16Writer{{Start: 5 * time.Second, Msgs: []c16Msg{{Len: 5}}}}},
		// the race: a Writer's frame written right after a concurrent Close frame
		"D2-writer-races-local-close": {Mode: c16Modes[1], Cause: "local-close", Echo: "immediate", Final: "Close",
			Writers: []c16Writer{{Start: 3 * time.Second, Msgs: []c16Msg{{Len: 1}}}, {Msgs: []c16Msg{{Len: 1, UseWriter: true, Chunks: []int{0}, ChunkGap: time.Millisecond}}}}},
	}
	names := make([]string, 0, len(cases))
	for name := range cases {
		names = append(names, name)
	}
	sort.Strings(names)
	for _, name := range names {
		c := cases[name]
		var msg string
		synctest.Test(t, func(t *testing.T) { msg, _ = runC16(t, c) })
		evid.For("C16").Case(true, "regress|"+name, "regression-replay")
		if msg != "" {
			failCase(t, "C16", map[string]any{"regress": name}, "%s: %s", name, msg)
		}
	}
}
