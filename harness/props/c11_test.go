package props

import (
	"bufio"
	"bytes"
	"context"
	"encoding/base64"
	"fmt"
	"io"
	"net"
	"net/http"
	"strings"
	"sync"
	"testing"
	"time"

	"nhooyr.io/websocket"
	"pgregory.net/rapid"
	"verif/harness/evid"
	"verif/harness/memconn"
	"verif/harness/ref"
	"verif/harness/wsx"
)

// C11 — Accept upgrades only valid WebSocket requests and answers them correctly.

type c11Req struct {
	Method, Version string
	Conn, Upgr      []string // header lines (nil = header absent)
	Ver, Key        []string
	Proto           []string
	Supported       []string
	Muts            []string
	// Ext: Sec-WebSocket-Extensions lines of the request; Mode: the server's compression mode. Neither has any
	// bearing on whether the request is a valid handshake or on which subprotocol is selected.
	Ext  []string
	Mode websocket.CompressionMode
	// SkipVerify: AcceptOptions.InsecureSkipVerify - it switches ORIGIN verification off and nothing else
	SkipVerify bool
}

func (q c11Req) render() string {
	var b strings.Builder
	fmt.Fprintf(&b, "%s /ws HTTP/%s\r\nHost: verif.test\r\n", q.Method, q.Version)
	add := func(name string, vals []string) {
		for _, v := range vals {
			fmt.Fprintf(&b, "%s: %s\r\n", name, v)
		}
	}
	add("Connection", q.Conn)
	add("Upgrade", q.Upgr)
	add("Sec-WebSocket-Version", q.Ver)
	add("Sec-WebSocket-Key", q.Key)
	add("Sec-WebSocket-Protocol", q.Proto)
	add("Sec-WebSocket-Extensions", q.Ext)
	b.WriteString("\r\n")
	return b.String()
}

func genKey(rt *rapid.T, n int) string {
	raw := rapid.SliceOfN(rapid.Byte(), n, n).Draw(rt, "keyBytes")
	return base64.StdEncoding.EncodeToString(raw)
}

func genC11(rt *rapid.T) c11Req {
	q := c11Req{Method: "GET", Version: "1.1", Conn: []string{"Upgrade"}, Upgr: []string{"websocket"}, Ver: []string{"13"}}
	q.Key = []string{genKey(rt, 16)}
	// benign variation that keeps the request valid
	switch rapid.IntRange(0, 6).Draw(rt, "benign") {
	case 6:
		// long lists: the token that matters comes last, behind 15..40 others (proxies and frameworks add options)
		n := rapid.SampledFrom([]int{15, 16, 17, 31, 40}).Draw(rt, "longListLen")
		var opts []string
		for i := 0; i < n; i++ {
			opts = append(opts, fmt.Sprintf("x-hop-%d", i))
		}
		q.Conn = []string{strings.Join(append(opts, "Upgrade"), ", ")}
		if rapid.Bool().Draw(rt, "longUpgradeToo") {
			q.Upgr = []string{strings.Join(append(opts, "websocket"), ", ")}
		}
	case 1:
		q.Conn = []string{rapid.SampledFrom([]string{"upgrade", "UPGRADE", "keep-alive, Upgrade", "Upgrade, keep-alive", "keep-alive,upgrade", "Upgrade ,  keep-alive", "keep-alive,\tUpgrade", "Upgrade\t, keep-alive", "keep-alive, \t Upgrade \t"}).Draw(rt, "connOK")}
	case 2:
		q.Conn = []string{"keep-alive", "Upgrade"}
		q.Upgr = []string{"h2c", "WebSocket"}
	case 3:
		q.Upgr = []string{rapid.SampledFrom([]string{"WebSocket", "WEBSOCKET", "h2c, websocket", "websocket, h2c", "h2c,\twebsocket", "websocket\t,h2c"}).Draw(rt, "upgrOK")}
	case 4:
		q.Key = []string{"  " + q.Key[0] + " "}
	}
	// subprotocols
	// names that differ only in letter case match; names that differ in one punctuation
	// character (pairs that collapse under a "|0x20" fold: ^~  |\  `@) do not
	protos := []string{"chat", "Chat", "superchat", "echo", "v2.proto", "chat~1", "chat^1", "a|b", "a\\b", "x`y", "x@y", ""}
	if rapid.Bool().Draw(rt, "withProtos") {
		for i := rapid.IntRange(0, 3).Draw(rt, "nSupported"); i > 0; i-- {
			q.Supported = append(q.Supported, rapid.SampledFrom(protos[:len(protos)-1]).Draw(rt, "supported"))
		}
		var offered []string
		if rapid.IntRange(0, 5).Draw(rt, "manyOffered") == 0 {
			// a client that offers a long list: the ones the server knows come after 14..40 it does not
			for i, n := 0, rapid.SampledFrom([]int{14, 15, 16, 17, 40}).Draw(rt, "fillerProtos"); i < n; i++ {
				offered = append(offered, fmt.Sprintf("legacy.v%d", i))
			}
		}
		for i := rapid.IntRange(0, 4).Draw(rt, "nOffered"); i > 0; i-- {
			offered = append(offered, rapid.SampledFrom(protos).Draw(rt, "offered"))
		}
		if len(offered) > 0 {
			switch rapid.IntRange(0, 2).Draw(rt, "protoLines") {
			case 0:
				if len(offered) > 1 {
					q.Proto = []string{strings.Join(offered[:1], ", "), strings.Join(offered[1:], ",")}
					break
				}
				fallthrough
			case 1:
				q.Proto = []string{strings.Join(offered, ", ")}
			default:
				q.Proto = []string{strings.Join(offered, ",\t")} // optional white space includes the tab
			}
		}
	}
	if rapid.IntRange(0, 2).Draw(rt, "withExtensions") == 0 {
		q.Ext = []string{rapid.SampledFrom([]string{"permessage-deflate", "permessage-deflate; client_max_window_bits", "permessage-deflate; server_no_context_takeover; client_no_context_takeover", "x-webkit-deflate-frame"}).Draw(rt, "extOffer")}
		q.Mode = rapid.SampledFrom(c01Modes).Draw(rt, "serverCompression")
	}
	q.SkipVerify = rapid.IntRange(0, 3).Draw(rt, "insecureSkipVerify") == 0
	k := rapid.SampledFrom([]int{0, 0, 0, 1, 1, 1, 1, 1, 2, 2}).Draw(rt, "nMutations")
	for i := 0; i < k; i++ {
		field := rapid.SampledFrom([]string{"method", "version", "conn", "upgr", "ver", "key"}).Draw(rt, "field")
		var how string
		switch field {
		case "method":
			how = rapid.SampledFrom([]string{"POST", "HEAD", "PUT", "OPTIONS", "get", "DELETE"}).Draw(rt, "method")
			q.Method = how
		case "version":
			how = "1.0"
			q.Version = how
		case "conn":
			how = rapid.SampledFrom([]string{"upgrades", "keep-alive", "", "<absent>", "close, keep-alive", "Upgrade2", "up grade", "xUpgrade"}).Draw(rt, "connBad")
			if how == "<absent>" {
				q.Conn = nil
			} else {
				q.Conn = []string{how}
			}
		case "upgr":
			how = rapid.SampledFrom([]string{"websocket2", "web socket", "", "<absent>", "h2c", "websockets", "websocket/13", "xwebsocket"}).Draw(rt, "upgrBad")
			if how == "<absent>" {
				q.Upgr = nil
			} else {
				q.Upgr = []string{how}
			}
		case "ver":
			how = rapid.SampledFrom([]string{"8", "12", "013", "", "<absent>", "14", "13, 8", "8, 13", "<lines 13 8>", "<lines 8 13>", "13 ", "1 3"}).Draw(rt, "verBad")
			switch how {
			case "<absent>":
				q.Ver = nil
			case "<lines 13 8>":
				q.Ver = []string{"13", "8"}
			case "<lines 8 13>":
				q.Ver = []string{"8", "13"}
			default:
				q.Ver = []string{how}
			}
		case "key":
			how = rapid.SampledFrom([]string{"15bytes", "17bytes", "0bytes", "badchar", "urlsafe", "nopad", "<absent>", "twice", "empty", "noncanonical", "32bytes", "blank-then-valid", "valid-then-blank", "17bytes-24chars", "18bytes-24chars"}).Draw(rt, "keyBad")
			switch how {
			case "15bytes":
				q.Key = []string{genKey(rt, 15)}
			case "17bytes":
				q.Key = []string{genKey(rt, 17)}
			case "32bytes":
				q.Key = []string{genKey(rt, 32)}
			case "0bytes", "empty":
				q.Key = []string{""}
			case "badchar":
				k := []byte(genKey(rt, 16))
				k[rapid.IntRange(0, 21).Draw(rt, "badPos")] = rapid.SampledFrom([]byte{'*', '!', '.', '~', '='}).Draw(rt, "badCh")
				q.Key = []string{string(k)}
			case "urlsafe":
				q.Key = []string{base64.URLEncoding.EncodeToString(append([]byte{0xfb, 0xff, 0xfe}, make([]byte, 13)...))}
			case "nopad":
				q.Key = []string{strings.TrimRight(genKey(rt, 16), "=")}
			case "<absent>":
				q.Key = nil
			case "twice":
				q.Key = []string{genKey(rt, 16), genKey(rt, 16)}
			case "blank-then-valid":
				q.Key = []string{"", genKey(rt, 16)}
			case "valid-then-blank":
				q.Key = []string{genKey(rt, 16), " "}
			case "17bytes-24chars":
				q.Key = []string{genKey(rt, 17)} // 24 characters ending in a single "="
			case "18bytes-24chars":
				q.Key = []string{genKey(rt, 18)} // 24 characters, no padding
			case "noncanonical":
				k := []byte(genKey(rt, 16))
				k[21] = 'B' // non-zero trailing bits
				q.Key = []string{string(k)}
			}
		}
		q.Muts = append(q.Muts, field+"="+how)
	}
	return q
}

// c11Verdict is the independent predicate on the raw text: "valid", "invalid" or "either".
func c11Verdict(text string) (string, string) {
	r := ref.ParseRawRequest(text)
	if !r.OK {
		return "invalid", ""
	}
	verdict := "valid"
	if r.Method != "GET" {
		return "invalid", ""
	}
	// HTTP/1.1 or later
	var maj, min int
	if n, err := fmt.Sscanf(r.Version, "HTTP/%d.%d", &maj, &min); n != 2 || err != nil || fmt.Sprintf("HTTP/%d.%d", maj, min) != r.Version {
		return "invalid", ""
	}
	if maj < 1 || maj == 1 && min < 1 {
		return "invalid", ""
	}
	if !ref.HasToken(r.Values("connection"), "upgrade") {
		return "invalid", ""
	}
	up := r.Values("upgrade")
	if !ref.HasToken(up, "websocket") {
		for _, t := range ref.Tokens(up) {
			if strings.HasPrefix(strings.ToLower(t), "websocket/") {
				verdict = "either" // product token with a version: the statement does not settle it
			}
		}
		if verdict != "either" {
			return "invalid", ""
		}
	}
	vers := r.Values("sec-websocket-version")
	switch {
	case len(vers) == 1 && vers[0] == "13":
	case len(vers) >= 1 && ref.HasToken(vers, "13"):
		verdict = "either" // several lines, or a list containing 13
	default:
		return "invalid", ""
	}
	keys := r.Values("sec-websocket-key")
	if len(keys) != 1 {
		return "invalid", ""
	}
	switch ref.KeyShape(keys[0]) {
	case "invalid":
		return "invalid", ""
	case "noncanonical":
		verdict = "either"
	}
	return verdict, keys[0]
}

func expectedProto(text string, supported []string) string {
	r := ref.ParseRawRequest(text)
	offered := ref.Tokens(r.Values("sec-websocket-protocol"))
	for _, sp := range supported {
		for _, cp := range offered {
			if cp != "" && strings.EqualFold(sp, cp) {
				return sp
			}
		}
	}
	return ""
}

type c11Outcome struct {
	Code     int
	Hijacked bool
	Conn     *websocket.Conn
	Err      error
	H        http.Header
}

func checkC11(q c11Req, text, verdict, key string, out c11Outcome) string {
	switch verdict {
	case "valid":
		if out.Code != 101 || !out.Hijacked || out.Conn == nil || out.Err != nil {
			return fmt.Sprintf("a valid upgrade request was not upgraded: status %d hijacked=%v err=%v", out.Code, out.Hijacked, out.Err)
		}
	case "invalid":
		if out.Code == 101 || out.Hijacked || out.Conn != nil {
			return fmt.Sprintf("an invalid request was upgraded (status %d, hijacked=%v)", out.Code, out.Hijacked)
		}
		if out.Code < 400 {
			return fmt.Sprintf("an invalid request got status %d, want an HTTP error status", out.Code)
		}
		if out.Err == nil {
			return "Accept returned no error for an invalid request"
		}
		return ""
	}
	if out.Code == 101 {
		if !out.Hijacked || out.Conn == nil {
			return "status 101 without taking over the connection"
		}
		if key != "" {
			if got, want := out.H.Get("Sec-WebSocket-Accept"), ref.AcceptKey(key); got != want {
				return fmt.Sprintf("Sec-WebSocket-Accept %q, want %q", got, want)
			}
		}
		if !strings.EqualFold(out.H.Get("Upgrade"), "websocket") || !ref.HasToken(out.H.Values("Connection"), "upgrade") {
			return "101 response without Upgrade: websocket / Connection: Upgrade"
		}
		want := expectedProto(text, q.Supported)
		got := out.H.Get("Sec-WebSocket-Protocol")
		if !strings.EqualFold(got, want) {
			return fmt.Sprintf("selected subprotocol %q, want %q (server prefers %v, client offered %v)", got, want, q.Supported, q.Proto)
		}
		if out.Conn.Subprotocol() != got {
			return fmt.Sprintf("Conn.Subprotocol() = %q but the response says %q", out.Conn.Subprotocol(), got)
		}
	} else if out.Hijacked || out.Conn != nil {
		return "connection taken over without a 101 response"
	}
	return ""
}

func TestC11(t *testing.T) {
	rec := evid.For("C11")
	rec.Rule = "raw HTTP/1.x request text built from a valid upgrade request by 0-2 field mutations (method, HTTP version, Connection / Upgrade token lists incl. case, several tokens, several lines and near-misses, Sec-WebSocket-Version values, key variants: 15/17/32/0 bytes, bad alphabet, URL-safe alphabet, missing padding, missing, duplicated), offered x supported subprotocol lists; parsed by http.ReadRequest (for valid requests, in half of the cases, the optional white space a parser strips is put back around the key: a request built by something other than net/http) and given to Accept with a recording hijacker (in one case of twelve with a ResponseWriter that has no Hijack method: never a 101); an independent predicate over the raw text says valid / invalid / either. A second stage sends the text plus pipelined client frames in one write to a real net/http server on loopback. Non-trivial: exactly one field mutated, or a valid request with multi-token/multi-line headers or a subprotocol match. distinct = hash(request text, supported list)."
	checkProp(t, func(rt *rapid.T) {
		q := genC11(rt)
		text := q.render()
		verdict, key := c11Verdict(text)
		r, err := http.ReadRequest(bufio.NewReader(strings.NewReader(text)))
		if err != nil {
			rec.Class("unparsable-by-net/http", 1)
			return
		}
		if pad := rapid.SampledFrom([]string{"", "", "", " ", "\t", "  "}).Draw(rt, "keyPadDirect"); pad != "" && verdict == "valid" && len(r.Header["Sec-Websocket-Key"]) == 1 {
			// a request that did not come through net/http's parser (a framework's adapter, a hand-built
			// *http.Request): optional white space is still around the field value. The library strips it
			// before it validates the key, so it may upgrade (or refuse) - but a 101 must carry the accept
			// value of the key the client sent, i.e. of the value without that white space
			r.Header["Sec-Websocket-Key"][0] = pad + r.Header["Sec-Websocket-Key"][0] + pad
			verdict = "either"
			rec.Class("key-with-optional-white-space-left-by-the-parser", 1)
		}
		if rapid.IntRange(0, 11).Draw(rt, "plainWriter") == 0 {
			// a ResponseWriter that cannot be hijacked (middleware wrapper, HTTP/2, TimeoutHandler): no
			// request can be upgraded through it, and none may be answered 101
			lib, peer := memconn.Pipe()
			rw := wsx.NewRespWriter(lib)
			conn, aerr := websocket.Accept(struct{ http.ResponseWriter }{rw}, r, &websocket.AcceptOptions{Subprotocols: q.Supported, CompressionMode: q.Mode, InsecureSkipVerify: q.SkipVerify})
			if conn != nil {
				conn.CloseNow()
			}
			lib.Close()
			peer.Close()
			rec.Case(true, "plain-writer|"+text, "response-writer-without-hijack", "verdict:"+verdict)
			if aerr == nil || conn != nil || rw.Code == 101 || rw.Hijacked {
				rt.Fatalf("C11: a ResponseWriter without Hijack: Accept returned conn=%v err=%v and answered status %d (the client would take a 101 for an upgrade that never happens)\nrequest:\n%s", conn != nil, aerr, rw.Code, text)
			}
			return
		}
		var sv *wsx.Server
		var aerr error
		if rapid.IntRange(0, 7).Draw(rt, "bufferingWriter") == 0 {
			// a server that builds the response in the connection's bufio.Writer and hands that
			// writer over on Hijack with the head still in it: the 101 must reach the client, in
			// front of the first frame, when the new connection first writes
			lib, peer := memconn.Pipe()
			defer peer.Close()
			defer lib.Close()
			w := wsx.NewRespWriter(lib)
			w.HeadInWriter = true
			sv, aerr = wsx.AcceptWith(w, r, &websocket.AcceptOptions{Subprotocols: q.Supported, CompressionMode: q.Mode, InsecureSkipVerify: q.SkipVerify})
			sv.Peer = peer
			out := c11Outcome{Code: sv.W.Code, Hijacked: sv.W.Hijacked, Conn: sv.Conn, Err: aerr, H: sv.W.H}
			msg := checkC11(q, text, verdict, key, out)
			if msg == "" && sv.Conn != nil {
				ctx, cancel := context.WithTimeout(context.Background(), 10*time.Second)
				werr := sv.Conn.Write(ctx, websocket.MessageText, []byte("hi"))
				cancel()
				wire := string(peer.InRecording())
				head, rest, found := strings.Cut(wire, "\r\n\r\n")
				switch {
				case werr != nil:
					msg = fmt.Sprintf("first Write on the accepted connection failed: %v", werr)
				case !strings.HasPrefix(wire, "HTTP/1.1 101 "):
					msg = fmt.Sprintf("the response head that was in the hijacked bufio.Writer never reached the client: the first bytes on the wire are %q", wire[:min(len(wire), 40)])
				case !found || (key != "" && !strings.Contains(head, "Sec-Websocket-Accept: "+ref.AcceptKey(key)+"\r\n")):
					msg = fmt.Sprintf("the response head on the wire is incomplete or carries the wrong accept value: %q", head)
				default:
					// the message "hi" as text, in one frame or (when compression was agreed, a message goes through the streaming writer) in several
					rep, verr := ref.ValidateStream([]byte(rest), ref.StreamOpts{FromClient: false, Deflate: sv.W.H.Get("Sec-WebSocket-Extensions") != "", Takeover: false}, false)
					if verr != nil || len(rep.Messages) != 1 || rep.Messages[0].Type != ref.OpText || string(rep.Messages[0].Payload) != "hi" {
						msg = fmt.Sprintf("behind the response head the wire carries %q instead of the text message \"hi\" (%v)", rest[:min(len(rest), 40)], verr)
					}
				}
			}
			if sv.Conn != nil {
				sv.Conn.CloseNow()
			}
			rec.Case(true, "buffering-writer|"+text, "response-head-inside-the-hijacked-bufio-writer", "verdict:"+verdict)
			if msg != "" {
				rt.Fatalf("C11 (buffering ResponseWriter) verdict=%s muts=%v: %s\nrequest:\n%s", verdict, q.Muts, msg, text)
			}
			return
		}
		if rapid.IntRange(0, 5).Draw(rt, "frameworkWriter") == 0 {
			// a framework's ResponseWriter (gin): the status only goes out when WriteHeaderNow is called
			lib, peer := memconn.Pipe()
			w := wsx.NewRespWriter(lib)
			w.Deferred = true
			sv, aerr = wsx.AcceptWith(w, r, &websocket.AcceptOptions{Subprotocols: q.Supported, CompressionMode: q.Mode, InsecureSkipVerify: q.SkipVerify})
			sv.Peer = peer
			defer peer.Close()
			defer lib.Close()
		} else {
			sv, aerr = wsx.AcceptReq(r, &websocket.AcceptOptions{Subprotocols: q.Supported, CompressionMode: q.Mode, InsecureSkipVerify: q.SkipVerify}, nil)
		}
		out := c11Outcome{Code: sv.W.Code, Hijacked: sv.W.Hijacked, Conn: sv.Conn, Err: aerr, H: sv.W.H}
		msg := checkC11(q, text, verdict, key, out)
		if sv.Conn != nil {
			sv.Conn.CloseNow()
		}
		nt := len(q.Muts) == 1 || (len(q.Muts) == 0 && (len(q.Conn) > 1 || strings.Contains(strings.Join(q.Conn, ""), ",") || len(q.Proto) > 0))
		classes := []string{"verdict:" + verdict}
		for _, m := range q.Muts {
			classes = append(classes, "mut:"+strings.SplitN(m, "=", 2)[0])
		}
		if out.H.Get("Sec-WebSocket-Protocol") != "" {
			classes = append(classes, "subprotocol-selected")
		}
		rec.Case(nt, text+"|"+strings.Join(q.Supported, ","), classes...)
		if rec.WantSample() {
			rec.Sample(map[string]any{"request": text, "supported": q.Supported, "verdict": verdict, "status": out.Code})
		}
		if msg != "" {
			rt.Fatalf("C11 verdict=%s muts=%v: %s\nrequest:\n%s", verdict, q.Muts, msg, text)
		}
	})
}

// TestC11Server: the same requests, followed in the same write by client
// frames, through a real net/http server on loopback.
func TestC11Server(t *testing.T) {
	rec := evid.For("C11")
	ln, err := net.Listen("tcp", "127.0.0.1:0")
	if err != nil {
		t.Skipf("no loopback listener: %v", err)
	}
	type result struct {
		accepted bool
		got      []byte
		err      error
	}
	var mu sync.Mutex
	results := map[string]chan result{}
	var supported []string
	srv := &http.Server{Handler: http.HandlerFunc(func(w http.ResponseWriter, r *http.Request) {
		id := r.URL.Query().Get("id")
		mu.Lock()
		ch := results[id]
		sup := supported
		mu.Unlock()
		c, err := websocket.Accept(w, r, &websocket.AcceptOptions{Subprotocols: sup})
		if err != nil {
			ch <- result{err: err}
			return
		}
		defer c.CloseNow()
		ctx, cancel := context.WithTimeout(context.Background(), 10*time.Second)
		defer cancel()
		_, b, err := c.Read(ctx)
		if err == nil {
			err = c.Write(ctx, websocket.MessageBinary, b)
		}
		ch <- result{accepted: true, got: b, err: err}
	})}
	go srv.Serve(ln)
	defer srv.Close()
	n := 0
	checkProp(t, func(rt *rapid.T) {
		n++
		q := genC11(rt)
		id := fmt.Sprint(n)
		text := strings.Replace(q.render(), "/ws ", "/ws?id="+id+" ", 1)
		verdict, key := c11Verdict(text)
		payload := expand(ckRandom, uint64(n), rapid.SampledFrom([]int{0, 5, 125, 126, 3000}).Draw(rt, "pipelinedLen"))
		f := ref.Frame{Fin: true, Opcode: ref.OpBinary, Masked: true, Key: [4]byte{1, 2, 3, byte(n)}, Payload: payload}
		ch := make(chan result, 1)
		mu.Lock()
		results[id] = ch
		supported = q.Supported
		mu.Unlock()
		conn, err := net.Dial("tcp", ln.Addr().String())
		if err != nil {
			rt.Fatalf("dial: %v", err)
		}
		defer conn.Close()
		conn.SetDeadline(time.Now().Add(20 * time.Second))
		conn.Write(append([]byte(text), f.Encode()...)) // request and frame "in the same packet"
		br := bufio.NewReader(conn)
		resp, err := http.ReadResponse(br, nil)
		if err != nil {
			// net/http refused to parse the request at all (e.g. closes the connection): not an upgrade
			if verdict == "valid" {
				rt.Fatalf("C11 server: a valid request got no response: %v\n%s", err, text)
			}
			rec.Case(false, "server|unparsable|"+text, "server:no-response")
			return
		}
		if resp.StatusCode != 101 {
			if verdict == "valid" {
				rt.Fatalf("C11 server: a valid request got status %d\n%s", resp.StatusCode, text)
			}
			rec.Case(len(q.Muts) == 1, "server|"+text, "server:refused")
			return
		}
		if verdict == "invalid" {
			rt.Fatalf("C11 server: an invalid request (muts %v) was upgraded\n%s", q.Muts, text)
		}
		if key != "" && resp.Header.Get("Sec-WebSocket-Accept") != ref.AcceptKey(key) {
			rt.Fatalf("C11 server: wrong Sec-WebSocket-Accept")
		}
		// the pipelined frame must have been received intact: the server echoes it
		var res result
		select {
		case res = <-ch:
		case <-time.After(15 * time.Second):
			rt.Fatalf("C11 server: handler did not finish")
		}
		if !res.accepted || res.err != nil || !bytes.Equal(res.got, payload) {
			rt.Fatalf("C11 server: the frame pipelined behind the request was not received intact: %d of %d bytes, err=%v", len(res.got), len(payload), res.err)
		}
		hdr := make([]byte, 2)
		if _, err := io.ReadFull(br, hdr); err != nil || hdr[0] != 0x82 {
			rt.Fatalf("C11 server: no echo frame after the upgrade (%x, %v)", hdr, err)
		}
		rec.Case(true, "server|"+text, "server:upgraded-with-pipelined-frame")
	})
}

// FuzzC11: coverage-guided search over the request text with the independent
// predicate as oracle (thorough tier).
func FuzzC11(f *testing.F) {
	f.Add("GET /ws HTTP/1.1\r\nHost: verif.test\r\nConnection: Upgrade\r\nUpgrade: websocket\r\nSec-WebSocket-Version: 13\r\nSec-WebSocket-Key: dGhlIHNhbXBsZSBub25jZQ==\r\n\r\n")
	f.Add("GET /ws HTTP/1.1\r\nHost: verif.test\r\nConnection: keep-alive, Upgrade\r\nUpgrade: h2c, WebSocket\r\nSec-WebSocket-Version: 13\r\nSec-WebSocket-Key: AAAAAAAAAAAAAAAAAAAAAA==\r\nSec-WebSocket-Protocol: chat, superchat\r\n\r\n")
	f.Add("POST /ws HTTP/1.0\r\nHost: verif.test\r\nConnection: close\r\n\r\n")
	f.Fuzz(func(t *testing.T, text string) {
		if len(text) > 2000 {
			t.Skip()
		}
		for i := 0; i < len(text); i++ {
			if c := text[i]; c != '\r' && c != '\n' && (c < 0x20 || c > 0x7e) {
				t.Skip() // printable ASCII request text
			}
		}
		raw := ref.ParseRawRequest(text)
		if !raw.OK || !strings.HasSuffix(text, "\r\n\r\n") || strings.Count(text, "\r\n\r\n") != 1 || strings.Contains(strings.ReplaceAll(text, "\r\n", ""), "\n") || strings.Contains(strings.ReplaceAll(text, "\r\n", ""), "\r") {
			t.Skip()
		}
		// only the headers the property is about may vary freely; continuation lines,
		// duplicate Host, Content-Length etc. are net/http's business
		for _, h := range raw.Headers {
			switch h[0] {
			case "host", "connection", "upgrade", "sec-websocket-version", "sec-websocket-key", "sec-websocket-protocol":
			default:
				t.Skip()
			}
			if strings.HasPrefix(h[1], " ") || h[0] != strings.TrimSpace(h[0]) {
				t.Skip()
			}
		}
		if len(raw.Values("host")) != 1 || raw.Values("host")[0] == "" || raw.Target != "/ws" {
			t.Skip()
		}
		r, err := http.ReadRequest(bufio.NewReader(strings.NewReader(text)))
		if err != nil {
			t.Skip()
		}
		verdict, key := c11Verdict(text)
		sv, aerr := wsx.AcceptReq(r, &websocket.AcceptOptions{Subprotocols: []string{"chat", "echo"}}, nil)
		out := c11Outcome{Code: sv.W.Code, Hijacked: sv.W.Hijacked, Conn: sv.Conn, Err: aerr, H: sv.W.H}
		msg := checkC11(c11Req{Supported: []string{"chat", "echo"}}, text, verdict, key, out)
		if sv.Conn != nil {
			sv.Conn.CloseNow()
		}
		if msg != "" {
			t.Fatalf("C11 fuzz verdict=%s: %s\nrequest: %q", verdict, msg, text)
		}
	})
}
