package props

import (
	"encoding/json"
	"fmt"
	"os"
	"path/filepath"
	"regexp"
	"runtime"
	"strings"
	"testing"
	"time"

	_ "pgregory.net/rapid"
	"verif/harness/evid"
)

func TestMain(m *testing.M) {
	go processDeadlockWatch()
	code := m.Run()
	evid.FlushAll()
	os.Exit(code)
}

// failCase records the descriptor of a failing enumerated (non-rapid) case so
// the driver can turn it into a replay file, then fails the test.
func failCase(t testing.TB, id string, desc any, format string, a ...any) {
	t.Helper()
	msg := fmt.Sprintf(format, a...)
	if dir := os.Getenv("VERIF_OUT"); dir != "" {
		shard := os.Getenv("VERIF_SHARD")
		if shard == "" {
			shard = "0"
		}
		b, _ := json.MarshalIndent(map[string]any{"property": id, "case": desc, "message": msg}, "", " ")
		os.WriteFile(filepath.Join(dir, "fail-"+id+"."+shard+".json"), b, 0o644)
	}
	t.Fatalf("%s: %s\ncase: %+v", id, msg, desc)
}

// replayCase loads the "case" member of a replay descriptor named by
// VERIF_REPLAY into v; ok is false when no replay was requested.
func replayCase(t testing.TB, v any) bool {
	p := os.Getenv("VERIF_REPLAY")
	if p == "" {
		return false
	}
	b, err := os.ReadFile(p)
	if err != nil {
		t.Fatalf("replay: %v", err)
	}
	var w struct {
		Case json.RawMessage `json:"case"`
	}
	if err := json.Unmarshal(b, &w); err != nil {
		t.Fatalf("replay: %v", err)
	}
	if err := json.Unmarshal(w.Case, v); err != nil {
		t.Fatalf("replay: %v", err)
	}
	return true
}

var bubbleGoroutine = regexp.MustCompile(`(?m)^goroutine \d+ \[([^\]]*)\]:`)

// watchDeadlock guards one case that runs in a synctest bubble. Waits on a
// sync.Mutex are not "durably blocking" for synctest: if a library goroutine
// waits on one for ever, the fake clock stops, none of the harness's virtual
// deadlines can fire and the runtime's own deadlock detection stays silent. The
// watch runs outside the bubble on the real clock: when, 20 s into the case, two
// dumps taken 3 s apart show every goroutine of the process waiting with
// identical stacks - nothing running, nothing runnable - no event can ever
// arrive, so this is a deadlock and not slowness. It is reported as a violation
// with the dump (the process has to end: the bubble cannot be unwound).
func watchDeadlock(t testing.TB, id string, desc any) (stop func()) {
	done := make(chan struct{})
	go func() {
		select {
		case <-done:
			return
		case <-time.After(20 * time.Second):
		}
		for {
			a := allStacks()
			select {
			case <-done:
				return
			case <-time.After(3 * time.Second):
			}
			b := allStacks()
			if stuck(a) && stuck(b) && stripAges(a) == stripAges(b) {
				if dir := os.Getenv("VERIF_OUT"); dir != "" {
					shard := os.Getenv("VERIF_SHARD")
					if shard == "" {
						shard = "0"
					}
					j, _ := json.MarshalIndent(map[string]any{"property": id, "case": desc, "message": "deadlock: every goroutine is blocked for ever (a call on the connection never returns)"}, "", " ")
					os.WriteFile(filepath.Join(dir, "fail-"+id+"."+shard+".json"), j, 0o644)
				}
				fmt.Printf("--- FAIL: %s deadlock: every goroutine of the case is blocked and cannot be woken\ncase: %+v\n%s\n", id, desc, b)
				evid.FlushAll()
				os.Exit(1)
			}
		}
	}()
	return func() { close(done) }
}

// processDeadlockWatch is the same idea for every test of the binary, without a
// per-case hook: when a synctest bubble exists and, over four dumps taken 10 s
// apart on the real clock, no goroutine of the process is running or runnable
// and the (normalised) stacks are identical, a goroutine inside the bubble waits
// on a mutex that nobody will release (all-durably-blocked bubbles either advance
// the fake clock or make synctest panic, so they never look like this). The test
// binary cannot unwind the bubble, so the process reports the failure and exits;
// the descriptor carries the rapid seed of this shard so that the replay command
// re-runs the same generated cases.
func processDeadlockWatch() {
	prev, same := "", 0
	for {
		time.Sleep(10 * time.Second)
		d := allStacks()
		n := stripAges(d)
		if stuck(d) && nonDurableInBubble(d) && n == prev {
			same++
		} else {
			same = 0
		}
		prev = n
		if same < 3 {
			continue
		}
		id, run, seed, checks := "C00", "", "", ""
		for i, a := range os.Args {
			if (a == "-test.run" || a == "--test.run") && i+1 < len(os.Args) {
				run = os.Args[i+1]
			}
			if v, ok := strings.CutPrefix(a, "-test.run="); ok {
				run = v
			}
			if v, ok := strings.CutPrefix(a, "-rapid.seed="); ok {
				seed = v
			}
			if v, ok := strings.CutPrefix(a, "-rapid.checks="); ok {
				checks = v
			}
		}
		if m := regexp.MustCompile(`C\d\d`).FindString(run); m != "" {
			id = m
		}
		desc := map[string]any{"deadlock": true, "test_run": run, "rapid_seed": seed, "rapid_checks": checks}
		if dir := os.Getenv("VERIF_OUT"); dir != "" {
			shard := os.Getenv("VERIF_SHARD")
			if shard == "" {
				shard = "0"
			}
			j, _ := json.MarshalIndent(map[string]any{"property": id, "case": desc, "message": "deadlock: every goroutine of the process is blocked for ever inside a generated case (a call on the connection never returns)"}, "", " ")
			os.WriteFile(filepath.Join(dir, "fail-"+id+"."+shard+".json"), j, 0o644)
		}
		fmt.Printf("--- FAIL: %s deadlock: every goroutine is blocked and cannot be woken (30 s without a runnable goroutine, identical stacks)\ncase: %+v\n%s\n", id, desc, d)
		evid.FlushAll()
		os.Exit(1)
	}
}

// nonDurableInBubble: some goroutine of a bubble is blocked in a way synctest does
// not count as durable (a sync.Mutex, typically) - the state that freezes the fake clock.
func nonDurableInBubble(dump string) bool {
	for _, m := range bubbleGoroutine.FindAllStringSubmatch(dump, -1) {
		if strings.Contains(m[1], "synctest bubble") && !strings.Contains(m[1], "(durable)") {
			return true
		}
	}
	return false
}

func allStacks() string {
	buf := make([]byte, 1<<20)
	for {
		n := runtime.Stack(buf, true)
		if n < len(buf) {
			return string(buf[:n])
		}
		buf = make([]byte, 2*len(buf))
	}
}

// stuck: no goroutine other than the watcher itself is running or runnable.
func stuck(dump string) bool {
	running := 0
	for _, m := range bubbleGoroutine.FindAllStringSubmatch(dump, -1) {
		st := m[1]
		if strings.HasPrefix(st, "running") || strings.HasPrefix(st, "runnable") || strings.HasPrefix(st, "syscall") {
			running++
		}
	}
	return running <= 1 // the goroutine taking the dump
}

var (
	ageRe  = regexp.MustCompile(`, \d+ minutes`)
	argsRe = regexp.MustCompile(`\(0x[^)]*\)|\+0x[0-9a-f]+|\{0x[^}]*\}`)
)

// stripAges reduces a dump to who is blocked where (states and function names), without
// ages, argument values and pc offsets.
func stripAges(d string) string {
	var keep []string
	for _, l := range strings.Split(d, "\n") {
		if strings.HasPrefix(l, "goroutine ") || (len(l) > 0 && l[0] != '\t' && l[0] != ' ') {
			keep = append(keep, argsRe.ReplaceAllString(ageRe.ReplaceAllString(l, ""), ""))
		}
	}
	return strings.Join(keep, "\n")
}
