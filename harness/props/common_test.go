package props

import (
	"encoding/json"
	"fmt"
	"os"
	"path/filepath"
	"testing"

	_ "pgregory.net/rapid"
	"verif/harness/evid"
)

func TestMain(m *testing.M) {
	code := m.Run()
	evid.FlushAll()
	os.Exit(code)
}

// failCase records the descriptor of a failing enumerated (non-rapid) case so
// the driver can turn it into a replay file, then fails the test.
func failCase(t testing.TB, id string, desc any, format string, a ...any) {
	t.Helper()
	msg := fmt.Sprintf(format, a...)
	if dir := os.Getenv("VERIF_OUT"); dir != "" {
		shard := os.Getenv("VERIF_SHARD")
		if shard == "" {
			shard = "0"
		}
		b, _ := json.MarshalIndent(map[string]any{"property": id, "case": desc, "message": msg}, "", " ")
		os.WriteFile(filepath.Join(dir, "fail-"+id+"."+shard+".json"), b, 0o644)
	}
	t.Fatalf("%s: %s\ncase: %+v", id, msg, desc)
}

// replayCase loads the "case" member of a replay descriptor named by
// VERIF_REPLAY into v; ok is false when no replay was requested.
func replayCase(t testing.TB, v any) bool {
	p := os.Getenv("VERIF_REPLAY")
	if p == "" {
		return false
	}
	b, err := os.ReadFile(p)
	if err != nil {
		t.Fatalf("replay: %v", err)
	}
	var w struct {
		Case json.RawMessage `json:"case"`
	}
	if err := json.Unmarshal(b, &w); err != nil {
		t.Fatalf("replay: %v", err)
	}
	if err := json.Unmarshal(w.Case, v); err != nil {
		t.Fatalf("replay: %v", err)
	}
	return true
}
