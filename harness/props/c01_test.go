package props

import (
	"bytes"
	"context"
	"fmt"
	"io"
	"testing"
	"testing/synctest"
	"time"

	"nhooyr.io/websocket"
	"pgregory.net/rapid"
	"verif/harness/evid"
	"verif/harness/ref"
)

// C01 — message round-trip fidelity for every size, chunking and compression setting.

var c01Modes = []websocket.CompressionMode{websocket.CompressionDisabled, websocket.CompressionContextTakeover, websocket.CompressionNoContextTakeover}

func modeName(m websocket.CompressionMode) string {
	switch m {
	case websocket.CompressionContextTakeover:
		return "ct"
	case websocket.CompressionNoContextTakeover:
		return "nct"
	}
	return "off"
}

type c01Case struct {
	Spec    pairSpec
	ToSrv   []outOp // written by the client
	ToCl    []outOp // written by the server
	ReadAPI string  // read | reader
	Buf     int
	Early   bool // the client starts writing as soon as it has the 101, before the server has taken the connection over
	// StallLen > 0: before the exchange, one Write of StallLen bytes (client to server when StallClient) is held up by the
	// transport after StallAt bytes, and the caller's buffer is looked at while the call is blocked.
	StallLen, StallAt int
	StallClient       bool
	OwnCtx            bool // every message is read under a context of its own that is cancelled once the message has been read
}

func genC01Len(rt *rapid.T, big bool) int {
	k := rapid.IntRange(0, 99).Draw(rt, "lenClass")
	switch {
	case k < 45:
		return rapid.SampledFrom(boundaryLens).Draw(rt, "len")
	case k < 50 && big:
		return rapid.SampledFrom([]int{1 << 20, 1<<20 + 1}).Draw(rt, "lenBig")
	case k < 52 && big && evid.Thorough():
		return 4 << 20
	}
	return rapid.IntRange(0, 70000).Draw(rt, "lenU")
}

func genC01Ops(rt *rapid.T, maxOps int, label string) []outOp {
	n := rapid.IntRange(0, maxOps).Draw(rt, label+"N")
	ops := make([]outOp, n)
	for i := range ops {
		o := &ops[i]
		o.Kind = rapid.SampledFrom([]string{"write", "write", "write", "writer", "writer", "writer", "wping", "reclose", "wlock"}).Draw(rt, "kind")
		if o.Kind == "reclose" {
			continue
		}
		if o.Kind == "wping" {
			genWPing(rt, o, 70000)
			continue
		}
		o.Text = rapid.Bool().Draw(rt, "text")
		o.CKind = rapid.IntRange(0, numContentKinds-1).Draw(rt, "ckind")
		o.Seed = rapid.Uint64().Draw(rt, "seed")
		o.Len = genC01Len(rt, true)
		if o.Kind == "writer" {
			for c := rapid.IntRange(0, 6).Draw(rt, "nChunks"); c > 0; c-- {
				o.Chunks = append(o.Chunks, rapid.SampledFrom(writerChunks).Draw(rt, "chunk"))
			}
		}
	}
	return ops
}

type c01Result struct {
	Rsv1, MultiFrame, Slid, Big, ZeroChunk bool
}

func runC01(t fataler, c c01Case) (string, c01Result) {
	var res c01Result
	e := newEnv(t)
	defer e.Teardown()
	ctx := context.Background()
	type dir struct {
		name   string
		from   *websocket.Conn
		to     *websocket.Conn
		ops    []outOp
		werr   string
		rerr   string
		wdone  <-chan struct{}
		rdone  <-chan struct{}
		all    chan struct{} // closed when every expected message has been read
		extra  string
		endErr error // what the final Read (the one that sees the end of the connection) returned
	}
	dirs := []*dir{{name: "client->server", ops: c.ToSrv}, {name: "server->client", ops: c.ToCl}}
	startWriter := func(d *dir) {
		d.wdone = e.Call(func() {
			for i, o := range d.ops {
				payload := expand(o.CKind, o.Seed, o.Len)
				keep := append([]byte(nil), payload...)
				if err := doOutOp(ctx, d.from, o, payload); err != nil {
					d.werr = fmt.Sprintf("%s: write %d %v failed: %v", d.name, i, o, err)
					return
				}
				if !bytes.Equal(payload, keep) {
					d.werr = fmt.Sprintf("%s: write %d %v modified the caller's buffer at offset %d", d.name, i, o, firstDiff(payload, keep))
					return
				}
			}
		})
	}
	spec := c.Spec
	if c.Early && len(c.ToSrv) > 0 {
		spec.AfterDial = func(cl *websocket.Conn) {
			dirs[0].from = cl
			startWriter(dirs[0])
		}
	}
	pr, err := e.openPair(spec)
	if err != nil {
		return "handshake: " + err.Error(), res
	}
	pr.Cl.SetReadLimit(-1)
	pr.Sv.SetReadLimit(-1)
	defer lastWriters.Delete(pr.Cl)
	defer lastWriters.Delete(pr.Sv)
	if c.StallLen > 0 && spec.AfterDial == nil {
		from, to, gate := pr.Cl, pr.Sv, pr.SvEnd
		if !c.StallClient {
			from, to, gate = pr.Sv, pr.Cl, pr.ClEnd
		}
		payload := expand(ckRandom, 4242, c.StallLen)
		keep := append([]byte(nil), payload...)
		gate.SetInBudget(int64(c.StallAt))
		var werr, rerr error
		var got []byte
		wd := e.Call(func() { werr = from.Write(ctx, websocket.MessageBinary, payload) })
		synctest.Wait()
		intact := bytes.Equal(payload, keep)
		gate.SetInBudget(-1)
		rd := e.Call(func() { _, got, rerr = to.Read(ctx) })
		if !within(wd, 60*time.Second) || !within(rd, 60*time.Second) || werr != nil || rerr != nil {
			return fmt.Sprintf("stalled write of %d bytes (held after %d): write err=%v read err=%v", c.StallLen, c.StallAt, werr, rerr), res
		}
		if !intact {
			return fmt.Sprintf("the caller's buffer (%d bytes) differed from what was handed over WHILE the Write was held up in the transport after %d bytes", c.StallLen, c.StallAt), res
		}
		if !bytes.Equal(payload, keep) || !bytes.Equal(got, keep) {
			return fmt.Sprintf("stalled write of %d bytes: buffer modified or message altered (first difference at %d)", c.StallLen, firstDiff(got, keep)), res
		}
	}
	dirs[0].from, dirs[0].to = pr.Cl, pr.Sv
	dirs[1].from, dirs[1].to = pr.Sv, pr.Cl
	for _, d := range dirs {
		d := d
		if d.wdone == nil {
			startWriter(d)
		}
		d.all = make(chan struct{})
		d.rdone = e.Call(func() {
			allRead := false
			defer func() {
				if !allRead {
					close(d.all)
				}
			}()
			buf := make([]byte, c.Buf)
			type keptMsg struct {
				got  []byte
				want []byte
			}
			var kept []keptMsg
			keptBytes := 0
			defer func() {
				// what Conn.Read handed out earlier must not change under later reads
				for i, k := range kept {
					if d.rerr == "" && !bytes.Equal(k.got, k.want) {
						d.rerr = fmt.Sprintf("%s: the slice returned for message %d changed after later reads (first difference at %d)", d.name, i, firstDiff(k.got, k.want))
					}
				}
			}()
			for i, o := range d.ops {
				if o.Kind == "reclose" {
					continue // sends nothing
				}
				want := expand(o.CKind, o.Seed, o.Len)
				wantTyp := websocket.MessageBinary
				if o.Text {
					wantTyp = websocket.MessageText
				}
				var typ websocket.MessageType
				var got []byte
				var err error
				// the idiomatic per-message context: cancelled as soon as the message has been read
				mctx, mcancel := ctx, context.CancelFunc(func() {})
				if c.OwnCtx {
					mctx, mcancel = context.WithCancel(ctx)
				}
				if c.ReadAPI == "read" {
					typ, got, err = d.to.Read(mctx)
				} else {
					var r io.Reader
					typ, r, err = d.to.Reader(mctx)
					if err == nil {
						for {
							n, e2 := r.Read(buf)
							got = append(got, buf[:n]...)
							if e2 == io.EOF {
								break
							}
							if e2 != nil {
								err = e2
								break
							}
						}
					}
				}
				mcancel()
				if err != nil {
					d.rerr = fmt.Sprintf("%s: reading message %d %v failed: %v", d.name, i, o, err)
					return
				}
				if typ != wantTyp {
					d.rerr = fmt.Sprintf("%s: message %d arrived with type %v, written as %v", d.name, i, typ, wantTyp)
					return
				}
				if !bytes.Equal(got, want) {
					d.rerr = fmt.Sprintf("%s: message %d %v arrived with %d bytes, %d written; first difference at %d", d.name, i, o, len(got), len(want), firstDiff(got, want))
					return
				}
				if c.ReadAPI == "read" && keptBytes < 4<<20 {
					kept = append(kept, keptMsg{got, want})
					keptBytes += len(got)
				}
				if o.Kind == "wlock" {
					// the message of the writer that queued behind this one
					_, extra, err := d.to.Read(ctx)
					if err != nil || !bytes.Equal(extra, wlockExtra(o)) {
						d.rerr = fmt.Sprintf("%s: the message queued behind message %d arrived as %d bytes, err=%v (want %d bytes)", d.name, i, len(extra), err, len(wlockExtra(o)))
						return
					}
				}
			}
			allRead = true
			close(d.all)
			// keep reading until the connection is closed: the peer's Pings are answered
			// from here, and nothing that was never written may arrive
			_, b, err := d.to.Read(ctx)
			d.endErr = err
			if err == nil {
				d.extra = fmt.Sprintf("%s: an extra message of %d bytes arrived that was never written", d.name, len(b))
			}
		})
	}
	for _, d := range dirs {
		if !within(d.wdone, 600*time.Second) {
			return d.name + ": writer did not finish within 600 s (virtual)", res
		}
		if !within(d.all, 600*time.Second) {
			if d.werr != "" {
				return d.werr, res
			}
			return d.name + ": reader did not finish within 600 s (virtual)", res
		}
		if d.werr != "" {
			return d.werr, res
		}
		if d.rerr != "" {
			return d.rerr, res
		}
	}
	if ps := e.Panics(); len(ps) > 0 {
		return "library panicked: " + ps[0], res
	}
	// nothing extra must arrive: both sides close cleanly
	var closeErr error
	cd := e.Call(func() { closeErr = pr.Cl.Close(websocket.StatusNormalClosure, "") })
	if !within(cd, 60*time.Second) {
		return "closing after the exchange did not finish", res
	}
	for _, d := range dirs {
		if !within(d.rdone, 60*time.Second) {
			return d.name + ": the reader did not end after Close", res
		}
		if d.rerr != "" {
			return d.rerr, res
		}
		if d.extra != "" {
			return d.extra, res
		}
	}
	// the streams end cleanly: the server sees the client's normal closure (whatever the
	// transport did to the Close frame's bytes) and the client's Close sees it echoed
	if got := websocket.CloseStatus(dirs[0].endErr); got != websocket.StatusNormalClosure {
		return fmt.Sprintf("after the exchange the client closed with status 1000, but the server's Read ended with %v", dirs[0].endErr), res
	}
	if closeErr != nil {
		return fmt.Sprintf("after the exchange the client's Close(1000) returned %v although the server is the library and echoes", closeErr), res
	}
	// classification from the wire tap (never part of the verdict)
	for i, wire := range [][]byte{pr.ClientWire(), pr.ServerWire()} {
		fromClient := i == 0
		rep, _ := ref.ValidateStream(wire, ref.StreamOpts{FromClient: fromClient, Deflate: pr.Agreed.Deflate, Takeover: pr.Agreed.SenderTakeover(fromClient)}, true)
		if rep != nil {
			res.Rsv1 = res.Rsv1 || rep.Rsv1Msgs > 0
			res.MultiFrame = res.MultiFrame || rep.MaxFrames >= 2
			res.Slid = res.Slid || rep.WindowSlid
		}
	}
	for _, ops := range [][]outOp{c.ToSrv, c.ToCl} {
		for _, o := range ops {
			if o.Len >= 65536 {
				res.Big = true
			}
			for _, ch := range o.Chunks {
				if ch == 0 {
					res.ZeroChunk = true
				}
			}
		}
	}
	return "", res
}

func c01Classes(c c01Case, res c01Result) (bool, string, []string) {
	shape := fmt.Sprintf("%s/%s|%d/%d|%d/%d|%s|%v|%d/%d/%v", modeName(c.Spec.ClMode), modeName(c.Spec.SvMode), c.Spec.ClThreshold, c.Spec.SvThreshold, c.Spec.Capacity, c.Spec.MaxRead, c.ReadAPI, c.Early, c.StallLen, c.StallAt, c.StallClient)
	for _, ops := range [][]outOp{c.ToSrv, c.ToCl} {
		shape += "|"
		for _, o := range ops {
			shape += fmt.Sprintf("%s%d/%d/%d,", o.Kind, o.CKind, lenClass(o.Len), len(o.Chunks))
		}
	}
	classes := []string{"modes:" + modeName(c.Spec.ClMode) + "/" + modeName(c.Spec.SvMode)}
	if res.Rsv1 {
		classes = append(classes, "rsv1-on-wire")
	}
	if res.MultiFrame {
		classes = append(classes, "multi-frame-message")
	}
	if res.Slid {
		classes = append(classes, "window-slid")
	}
	if res.Big {
		classes = append(classes, "message>=64KiB")
	}
	if res.ZeroChunk {
		classes = append(classes, "zero-length-chunk")
	}
	if c.Early && len(c.ToSrv) > 0 {
		classes = append(classes, "client-bytes-buffered-before-hijack")
	}
	if c.StallLen > 0 && !(c.Early && len(c.ToSrv) > 0) {
		classes = append(classes, "caller-buffer-inspected-during-a-stalled-write")
	}
	for _, ops := range [][]outOp{c.ToSrv, c.ToCl} {
		for _, o := range ops {
			if o.Kind == "wping" {
				classes = append(classes, "ping-inside-message")
				return res.Rsv1 || res.MultiFrame, shape, classes
			}
		}
	}
	return res.Rsv1 || res.MultiFrame, shape, classes
}

func TestC01(t *testing.T) {
	rec := evid.For("C01")
	rec.Rule = "library client <-> library server over a tapped in-memory transport: rapid draws the 3x3 compression modes, thresholds {default,1,64,512,5000,100000}^2, transport buffer capacity and read chunking, 0-12 messages per direction (both directions at once) with boundary-biased lengths (0..70000, framing boundaries 125/126/65535/65536, multiples of 4096, 1 MiB, 1 MiB+1; thorough: 4 MiB), five content kinds incl. long-range repeats beyond the 32 KiB window, Write or Writer with chunk lists from {0,1,3,125,126,4095,4096,4097,8192,40000} or a Writer message interrupted by a Ping call after its first Write, or a second Close on the writer of an earlier message (which must send nothing), in a quarter of the cases a Write of up to 70000 bytes is first held up by the transport after a drawn number of bytes and the caller's buffer compared while the call is blocked, in a sixth of the cases the client starts writing as soon as it has the 101 so that its first frames are already buffered in the hijacked bufio.Reader when Accept takes over; read by Read or Reader with buffers 1..32768; plus a deterministic boundary sweep. Oracle: same count, order, type, byte-identical payloads, clean EOF, caller buffers unchanged, nothing extra. Non-trivial: the wire tap shows an RSV1 message or a message of >=2 frames. distinct = hash(modes, thresholds, transport, per-message (kind, content kind, length class, chunks))."
	checkProp(t, func(rt *rapid.T) {
		var c c01Case
		c.Spec.ClMode = rapid.SampledFrom(c01Modes).Draw(rt, "clMode")
		c.Spec.SvMode = rapid.SampledFrom(c01Modes).Draw(rt, "svMode")
		c.Spec.ClThreshold = rapid.SampledFrom(c02Thresholds).Draw(rt, "clTh")
		c.Spec.SvThreshold = rapid.SampledFrom(c02Thresholds).Draw(rt, "svTh")
		c.Spec.Capacity = rapid.SampledFrom([]int{0, 0, 1, 100, 4096, 65536}).Draw(rt, "capacity")
		c.Spec.MaxRead = rapid.SampledFrom([]int{0, 0, 1, 7, 1000, 4096}).Draw(rt, "maxRead")
		c.ToSrv = genC01Ops(rt, 12, "toSrv")
		c.ToCl = genC01Ops(rt, 12, "toCl")
		c.ReadAPI = rapid.SampledFrom([]string{"read", "reader"}).Draw(rt, "readAPI")
		c.Buf = rapid.SampledFrom([]int{1, 7, 512, 4096, 32768}).Draw(rt, "buf")
		c.Early = rapid.IntRange(0, 5).Draw(rt, "early") == 0
		c.OwnCtx = rapid.Bool().Draw(rt, "ownReadContexts")
		if rapid.IntRange(0, 3).Draw(rt, "stallProbe") == 0 {
			c.StallLen = rapid.SampledFrom([]int{100, 5000, 9000, 20000, 70000}).Draw(rt, "stallLen")
			c.StallAt = rapid.SampledFrom([]int{0, 1, 100, 4200, 8300, 12500, c.StallLen / 2}).Draw(rt, "stallAt")
			c.StallClient = rapid.IntRange(0, 3).Draw(rt, "stallClient") != 0
		}
		if c.Spec.Capacity != 0 {
			// Pongs are written by the goroutine that reads. With a bounded transport buffer
			// and Pings travelling in both directions at once, both readers can end up
			// writing a Pong that the other one is not reading: a property of any
			// endpoint that answers from its read loop, not of message fidelity. Pings in
			// one direction only cannot form that cycle.
			for i := range c.ToCl {
				if c.ToCl[i].Kind == "wping" {
					c.ToCl[i].Kind = "writer"
				}
			}
		}
		if c.Spec.MaxRead == 1 || c.Buf == 1 {
			// one-byte transport reads / caller buffers with megabyte messages only cost time
			for _, ops := range [][]outOp{c.ToSrv, c.ToCl} {
				for i := range ops {
					if ops[i].Len > 70000 {
						ops[i].Len = 70000
					}
				}
			}
		}
		var msg string
		var res c01Result
		rapid.SyncTest(rt, func(rt *rapid.T) { msg, res = runC01(rt, c) })
		nt, shape, classes := c01Classes(c, res)
		rec.Case(nt, shape, classes...)
		if rec.WantSample() {
			rec.Sample(fmt.Sprintf("%+v", c))
		}
		if msg != "" {
			rt.Fatalf("C01 %+v: %s", c, msg)
		}
	})
}

// TestC01Sweep: every boundary length x 9 mode pairs x 2 directions x {Write, Writer}.
func TestC01Sweep(t *testing.T) {
	rec := evid.For("C01")
	lens := append([]int(nil), boundaryLens...)
	lens = append(lens, 12287, 12288, 12289, 1<<20, 1<<20+1)
	shard, shards := evid.EnvInt("VERIF_SHARD", 0), evid.EnvInt("VERIF_SHARDS", 1)
	idx := 0
	for _, cm := range c01Modes {
		for _, sm := range c01Modes {
			idx++
			if idx%shards != shard {
				continue
			}
			for _, kind := range []string{"write", "writer"} {
				var ops []outOp
				for i, l := range lens {
					o := outOp{Kind: kind, Text: i%2 == 0, CKind: []int{ckText, ckRandom, ckPattern}[i%3], Seed: evid.Mix(evid.Seed(), uint64(i)), Len: l}
					if kind == "writer" {
						o.Chunks = []int{writerChunks[i%len(writerChunks)], writerChunks[(i+3)%len(writerChunks)]}
					}
					ops = append(ops, o)
				}
				c := c01Case{Spec: pairSpec{ClMode: cm, SvMode: sm}, ToSrv: ops, ToCl: ops, ReadAPI: "reader", Buf: 4096}
				var msg string
				var res c01Result
				synctest.Test(t, func(t *testing.T) { msg, res = runC01(t, c) })
				_, _, classes := c01Classes(c, res)
				for i, l := range lens {
					_ = i
					rec.Case(true, fmt.Sprintf("sweep|%s|%s|%s|%d", modeName(cm), modeName(sm), kind, l), append(classes, "sweep")...)
				}
				if msg != "" {
					failCase(t, "C01", fmt.Sprintf("sweep %s/%s %s", modeName(cm), modeName(sm), kind), "%s", msg)
				}
			}
		}
	}
	rec.Exhaustive("boundary lengths x 3x3 modes x both directions x {Write, Writer}", true)
}

// TestC01SenderDies: the other half of "exactly one message with a byte-identical payload" -
// a message whose sender goes away after some of its fragments is NOT received as a message.
// Library to library: the sender opens a Writer, writes k chunks (each goes out as a fragment;
// a Ping flushes what the write buffer still holds), and is then gone (CloseNow) before it
// closes the message - at a frame boundary, which is the one place where the receiver's
// transport ends with a plain EOF. The receiver's read of that message must fail, and whatever
// it handed out before that is a prefix of what was written. Enumerated: direction x modes x
// chunk sizes x number of chunks x read API.
func TestC01SenderDies(t *testing.T) {
	rec := evid.For("C01")
	type sdCase struct {
		FromClient bool
		Mode       string
		Chunk      int
		K          int
		API        string
	}
	for _, fromClient := range []bool{true, false} {
		for mi, mode := range c01Modes {
			for _, chunk := range []int{1, 300, 4096, 5000} {
				for _, k := range []int{1, 3} {
					for _, api := range []string{"read", "reader"} {
						c := sdCase{fromClient, modeName(mode), chunk, k, api}
						var msg string
						synctest.Test(t, func(t *testing.T) {
							e := newEnv(t)
							defer e.Teardown()
							pr, err := e.openPair(pairSpec{ClMode: mode, SvMode: c01Modes[(mi+k)%len(c01Modes)], ClThreshold: 64, SvThreshold: 64})
							if err != nil {
								msg = "handshake: " + err.Error()
								return
							}
							from, to := pr.Cl, pr.Sv
							if !fromClient {
								from, to = pr.Sv, pr.Cl
							}
							ctx := context.Background()
							// the sender's side reads too, so that its Ping is answered
							e.Go(func() { from.Read(ctx) })
							whole := expand(ckText, uint64(chunk*7+k), chunk*k)
							var got []byte
							var rerr error
							complete := false
							rd := e.Call(func() {
								if api == "read" {
									_, got, rerr = to.Read(ctx)
									complete = rerr == nil
									return
								}
								_, r, err := to.Reader(ctx)
								if err != nil {
									rerr = err
									return
								}
								b := make([]byte, 777)
								for {
									n, err := r.Read(b)
									got = append(got, b[:n]...)
									if err == io.EOF {
										complete = true
										return
									}
									if err != nil {
										rerr = err
										return
									}
								}
							})
							w, err := from.Writer(ctx, websocket.MessageBinary)
							if err != nil {
								msg = "Writer: " + err.Error()
								return
							}
							for i := 0; i < k; i++ {
								if _, err := w.Write(whole[i*chunk : (i+1)*chunk]); err != nil {
									msg = "Write: " + err.Error()
									return
								}
							}
							pctx, cancel := context.WithTimeout(ctx, 10*time.Second)
							perr := from.Ping(pctx) // a control frame is final: everything buffered goes out
							cancel()
							if perr != nil {
								msg = "Ping between the chunks of a message failed: " + perr.Error()
								return
							}
							from.CloseNow() // the sender is gone; its message was never closed
							if !within(rd, 60*time.Second) {
								msg = "the receiver's read did not return after the sender was gone"
								return
							}
							if complete {
								msg = fmt.Sprintf("the sender wrote %d of its chunks and went away without closing the message; the receiver was handed a COMPLETE message of %d bytes", k, len(got))
								return
							}
							if rerr == nil {
								msg = "harness: neither complete nor failed"
								return
							}
							if !bytes.HasPrefix(whole, got) {
								msg = fmt.Sprintf("the %d bytes handed out before the error are not a prefix of what was written", len(got))
							}
						})
						rec.Case(true, fmt.Sprintf("senderdies|%+v", c), "sender-gone-between-the-fragments-of-a-message")
						if msg != "" {
							failCase(t, "C01", c, "%s", msg)
						}
					}
				}
			}
		}
	}
}

// TestC01TwoPairs: two library<->library connections alive in one process. The first one
// negotiates context takeover and exchanges a message; then a second one is negotiated with
// other compression modes (its handshake must not reach into the first one's agreement); then the
// first one exchanges a message that repeats the earlier content, so that the sender's
// compressor refers back to it - the receiver can only follow if both ends still hold the
// parameters they agreed on. Every message arrives as written. Enumerated: modes of the second
// pair x direction x who is opened first.
func TestC01TwoPairs(t *testing.T) {
	rec := evid.For("C01")
	for _, m1 := range []websocket.CompressionMode{websocket.CompressionContextTakeover, websocket.CompressionNoContextTakeover} {
		for _, cl2 := range c01Modes {
			for _, sv2 := range c01Modes {
				desc := fmt.Sprintf("twopairs|first=%s|second=%s/%s", modeName(m1), modeName(cl2), modeName(sv2))
				var msg string
				synctest.Test(t, func(t *testing.T) {
					e := newEnv(t)
					defer e.Teardown()
					p1, err := e.openPair(pairSpec{ClMode: m1, SvMode: m1, ClThreshold: 64, SvThreshold: 64})
					if err != nil {
						msg = "handshake of the first pair: " + err.Error()
						return
					}
					ctx := context.Background()
					xfer := func(name string, from, to *websocket.Conn, payload []byte) string {
						var werr, rerr error
						var got []byte
						wd := e.Call(func() { werr = from.Write(ctx, websocket.MessageText, payload) })
						rd := e.Call(func() { _, got, rerr = to.Read(ctx) })
						if !within(wd, 30*time.Second) || !within(rd, 30*time.Second) {
							return name + ": the exchange did not finish"
						}
						if werr != nil || rerr != nil {
							return fmt.Sprintf("%s: write err=%v, read err=%v", name, werr, rerr)
						}
						if !bytes.Equal(got, payload) {
							return fmt.Sprintf("%s: %d bytes arrived, %d written; first difference at %d", name, len(got), len(payload), firstDiff(got, payload))
						}
						return ""
					}
					a := expand(ckText, 41, 3000)
					for _, d := range []struct {
						n        string
						from, to *websocket.Conn
					}{{"first pair, client->server, first message", p1.Cl, p1.Sv}, {"first pair, server->client, first message", p1.Sv, p1.Cl}} {
						if m := xfer(d.n, d.from, d.to, a); m != "" {
							msg = m
							return
						}
					}
					p2, err := e.openPair(pairSpec{ClMode: cl2, SvMode: sv2, ClThreshold: 64, SvThreshold: 64})
					if err != nil {
						msg = "handshake of the second pair: " + err.Error()
						return
					}
					if m := xfer("second pair, client->server", p2.Cl, p2.Sv, expand(ckText, 43, 2000)); m != "" {
						msg = m
						return
					}
					b := append(append([]byte("again: "), a[:2500]...), " and once more"...)
					for _, d := range []struct {
						n        string
						from, to *websocket.Conn
					}{{"first pair, client->server, a message that repeats the first (after the second pair was negotiated)", p1.Cl, p1.Sv}, {"first pair, server->client, a message that repeats the first (after the second pair was negotiated)", p1.Sv, p1.Cl}} {
						if m := xfer(d.n, d.from, d.to, b); m != "" {
							msg = m
							return
						}
					}
					if m := xfer("second pair, server->client", p2.Sv, p2.Cl, expand(ckText, 43, 2100)); m != "" {
						msg = m
					}
				})
				rec.Case(true, desc, "two-pairs-alive-with-different-compression-modes")
				if msg != "" {
					failCase(t, "C01", desc, "%s", msg)
				}
			}
		}
	}
}
