package props

import (
	"bytes"
	"context"
	"fmt"
	"io"
	"strings"
	"sync"
	"testing"
	"testing/synctest"
	"time"

	"nhooyr.io/websocket"
	"pgregory.net/rapid"
	"verif/harness/evid"
	"verif/harness/ref"
	"verif/harness/wsx"
)

// C02 — everything an endpoint emits is a conformant RFC 6455 / RFC 7692 frame stream.

// c02Modes: (role, mode, foreign offer/response) settings; the agreement that
// results (incl. asymmetric ones) is read from the handshake response.
var c02Modes = []c03Mode{
	{"server/off", false, websocket.CompressionDisabled, ""},
	{"server/off-but-offered", false, websocket.CompressionDisabled, "permessage-deflate"},
	{"client/off", true, websocket.CompressionDisabled, ""},
	{"server/ct+plain-offer", false, websocket.CompressionContextTakeover, "permessage-deflate"},
	{"server/ct+server_no_ctx-offer", false, websocket.CompressionContextTakeover, "permessage-deflate; server_no_context_takeover"},
	{"server/ct+client_no_ctx-offer", false, websocket.CompressionContextTakeover, "permessage-deflate; client_no_context_takeover"},
	{"server/ct+both-offer", false, websocket.CompressionContextTakeover, "permessage-deflate; client_no_context_takeover; server_no_context_takeover"},
	{"server/ct+window-bits-offer", false, websocket.CompressionContextTakeover, "permessage-deflate; client_max_window_bits; server_max_window_bits=15"},
	{"server/ct+fallback-offer", false, websocket.CompressionContextTakeover, "permessage-deflate; server_max_window_bits=10, permessage-deflate; server_no_context_takeover"},
	{"server/nct+plain-offer", false, websocket.CompressionNoContextTakeover, "permessage-deflate"},
	{"server/nct+no-offer", false, websocket.CompressionNoContextTakeover, ""},
	{"client/ct+plain-resp", true, websocket.CompressionContextTakeover, "permessage-deflate"},
	{"client/ct+client_no_ctx-resp", true, websocket.CompressionContextTakeover, "permessage-deflate; client_no_context_takeover"},
	{"client/ct+server_no_ctx-resp", true, websocket.CompressionContextTakeover, "permessage-deflate; server_no_context_takeover"},
	{"client/ct+both-resp", true, websocket.CompressionContextTakeover, "permessage-deflate; client_no_context_takeover; server_no_context_takeover"},
	{"client/ct+window-bits-resp", true, websocket.CompressionContextTakeover, "permessage-deflate; server_max_window_bits=12"},
	{"client/ct+declined", true, websocket.CompressionContextTakeover, ""},
	// the client offers nothing and the server answers permessage-deflate all the same: Dial refuses that
	// (C13, C14); should a connection result, nothing was negotiated and nothing it writes may be compressed
	{c02Unsolicited, true, websocket.CompressionDisabled, "permessage-deflate"},
	{"client/nct+both-resp", true, websocket.CompressionNoContextTakeover, "permessage-deflate; client_no_context_takeover; server_no_context_takeover"},
	{"client/nct+client_no_ctx-resp", true, websocket.CompressionNoContextTakeover, "permessage-deflate; client_no_context_takeover; server_no_context_takeover; server_max_window_bits=15"},
}

const c02Unsolicited = "client/off+unsolicited-resp"

var c02Thresholds = []int{0, 1, 64, 512, 5000, 100000}

type outOp struct {
	Kind   string // write | writer | ping | reclose (Close again on the writer of an earlier message) | wping (Writer; Write(Chunks[0] bytes); Ping; Write(rest); Close) | burst | wstall / wfail (Write held up after Chunks[0] bytes; wfail: the transport is lost then)
	Text   bool
	CKind  int
	Seed   uint64
	Len    int
	Chunks []int
}

func (o outOp) String() string {
	return fmt.Sprintf("{%s text=%v kind=%d len=%d chunks=%v}", o.Kind, o.Text, o.CKind, o.Len, o.Chunks)
}

var writerChunks = []int{0, 1, 3, 125, 126, 4095, 4096, 4097, 8192, 40000}

func genOutOps(rt *rapid.T, maxOps, maxLen int, pings bool) []outOp {
	n := rapid.IntRange(1, maxOps).Draw(rt, "nOps")
	ops := make([]outOp, n)
	for i := range ops {
		o := &ops[i]
		k := rapid.IntRange(0, 16).Draw(rt, "opKind")
		switch {
		case k < 4:
			o.Kind = "write"
		case k < 8:
			o.Kind = "writer"
		case k < 10:
			o.Kind = "ping"
			if !pings {
				o.Kind = "write"
			}
		case k < 12:
			o.Kind = "wping"
			if !pings {
				o.Kind = "writer"
			}
		case k < 13:
			o.Kind = "burst"
			if !pings {
				o.Kind = "write"
			}
		case k == 14:
			o.Kind = "reclose"
			continue
		case k == 15:
			o.Kind = "wlock"
			if !pings {
				o.Kind = "writer"
			}
		case k == 16:
			// a Write held up by a zero window, three more Write calls of other goroutines
			// queued behind it, then the window opens
			o.Kind = "cburst"
			if !pings {
				o.Kind = "write"
			}
		default:
			// a Write held up after StallAt bytes: the caller's buffer is looked at while
			// the call is blocked; the last op of a program may then lose its transport
			o.Kind = "wstall"
			if !pings {
				o.Kind = "write"
			}
		}
		if o.Kind == "ping" {
			continue
		}
		if o.Kind == "wping" {
			genWPing(rt, o, maxLen)
			continue
		}
		o.Text = rapid.Bool().Draw(rt, "text")
		o.CKind = rapid.IntRange(0, numContentKinds-1).Draw(rt, "ckind")
		o.Seed = rapid.Uint64().Draw(rt, "seed")
		o.Len = genLen(rt, maxLen, "len")
		if i > 0 && rapid.IntRange(0, 4).Draw(rt, "sameContentAsEarlierOp") == 0 {
			// the content of an earlier message once more (or a prefix / an extension of it): a
			// compressor with context takeover then refers back to that message
			prev := ops[rapid.IntRange(0, i-1).Draw(rt, "earlierOp")]
			o.CKind, o.Seed = prev.CKind, prev.Seed
		}
		if o.Kind == "burst" || o.Kind == "cburst" {
			o.Len = rapid.SampledFrom([]int{0, 100, 5000, 9000, 70000}).Draw(rt, "burstLen")
			if o.Len > maxLen {
				o.Len = maxLen
			}
		}
		if o.Kind == "wstall" {
			o.Len = rapid.SampledFrom([]int{100, 4096, 5000, 9000, 20000, 70000}).Draw(rt, "stallLen")
			if o.Len > maxLen {
				o.Len = maxLen
			}
			o.Chunks = []int{rapid.SampledFrom([]int{0, 1, 100, 4096, 4200, 8300, 12500, o.Len / 2, o.Len, o.Len + 5}).Draw(rt, "stallAt")}
			if i == n-1 && rapid.Bool().Draw(rt, "transportLost") {
				o.Kind = "wfail"
			}
		}
		if o.Kind == "writer" {
			nc := rapid.IntRange(0, 6).Draw(rt, "nChunks")
			for c := 0; c < nc; c++ {
				o.Chunks = append(o.Chunks, rapid.SampledFrom(writerChunks).Draw(rt, "chunk"))
			}
		}
	}
	return ops
}

// genWPing draws a message that is interrupted by a Ping call after its first
// Write: lengths around one 64 KiB deflate block and contents biased towards the
// kind whose first block leaves the compressor as a single piece, so that the
// control frame follows the FIRST frame of a compressed message directly.
func genWPing(rt *rapid.T, o *outOp, maxLen int) {
	o.Text = rapid.Bool().Draw(rt, "text")
	o.CKind = rapid.SampledFrom([]int{ckHeadRandom, ckHeadRandom, ckHeadRandom, ckZero, ckText, ckRandom, ckPattern}).Draw(rt, "ckind")
	o.Seed = rapid.Uint64().Draw(rt, "seed")
	lens := []int{300, 5000, 65535, 65536, 66000, 70000}
	for len(lens) > 1 && lens[len(lens)-1] > maxLen {
		lens = lens[:len(lens)-1]
	}
	o.Len = rapid.SampledFrom(lens).Draw(rt, "len")
	first := rapid.SampledFrom([]int{o.Len, o.Len - 1, 65535, 65536, 66000, 4096, 1}).Draw(rt, "first")
	if first > o.Len {
		first = o.Len
	}
	if first < 0 {
		first = 0
	}
	o.Chunks = []int{first}
}

// wlockExtra is the message the queued writer C sends in a "wlock" op.
func wlockExtra(o outOp) []byte { return expand(ckText, o.Seed+1, 40+int(o.Seed%300)) }

// lastWriters: the most recent message writer handle per connection, for the "reclose" op.
var lastWriters sync.Map

// doOutOp performs one write-side operation; payload is the op's content.
func doOutOp(ctx context.Context, conn *websocket.Conn, o outOp, payload []byte) error {
	typ := websocket.MessageBinary
	if o.Text {
		typ = websocket.MessageText
	}
	switch o.Kind {
	case "ping":
		return conn.Ping(ctx)
	case "write":
		return conn.Write(ctx, typ, payload)
	case "wlock":
		// A streams this message; while it is open B's Write gives up waiting for its turn
		// (50 ms deadline) and C's Write (no deadline) queues. C must wait for A to finish:
		// the wire carries A's message, then C's.
		w, err := conn.Writer(ctx, typ)
		if err != nil {
			return err
		}
		lastWriters.Store(conn, w)
		half := len(payload) / 2
		if _, err := w.Write(payload[:half]); err != nil {
			return err
		}
		bctx, bcancel := context.WithTimeout(ctx, 50*time.Millisecond)
		defer bcancel()
		if berr := conn.Write(bctx, websocket.MessageBinary, []byte("B gives up")); berr == nil {
			return fmt.Errorf("a Write returned nil while another goroutine's message was open")
		}
		cdone := make(chan error, 1)
		go func() { cdone <- conn.Write(ctx, websocket.MessageBinary, wlockExtra(o)) }()
		// (virtual time only moves once every goroutine of the bubble is blocked; synctest.Wait
		// itself must not be used here: the other direction's writer may be doing the same)
		time.Sleep(time.Millisecond)
		select {
		case cerr := <-cdone:
			return fmt.Errorf("a Write got its turn inside another goroutine's open message after a third Write had given up waiting (err=%v)", cerr)
		default:
		}
		if _, err := w.Write(payload[half:]); err != nil {
			return err
		}
		if err := w.Close(); err != nil {
			return err
		}
		return <-cdone
	case "reclose":
		// Close once more on the writer of an earlier, finished message (a deferred Close
		// behind an explicit one): at most an error, and nothing on the wire
		if w, ok := lastWriters.Load(conn); ok {
			if err := w.(io.WriteCloser).Close(); err == nil {
				return fmt.Errorf("a second Close on the writer of a finished message returned nil")
			}
		}
		return nil
	case "wping":
		w, err := conn.Writer(ctx, typ)
		if err != nil {
			return err
		}
		lastWriters.Store(conn, w)
		first := o.Chunks[0]
		if _, err := w.Write(payload[:first]); err != nil {
			return err
		}
		if err := conn.Ping(ctx); err != nil {
			return fmt.Errorf("Ping between two Writes of a message: %w", err)
		}
		if _, err := w.Write(payload[first:]); err != nil {
			return err
		}
		return w.Close()
	case "writer":
		prev, havePrev := lastWriters.Load(conn)
		w, err := conn.Writer(ctx, typ)
		if err != nil {
			return err
		}
		lastWriters.Store(conn, w)
		rest := payload
		for i, c := range o.Chunks {
			if c > len(rest) {
				c = len(rest)
			}
			if _, err := w.Write(rest[:c]); err != nil {
				return err
			}
			rest = rest[c:]
			if i == 0 && havePrev && o.Seed%3 == 0 {
				// The handle of an earlier, finished message is used once more while THIS message is
				// open (the deferred Close of the goroutine that wrote the earlier one runs now): it
				// must be refused and must leave this message alone (defect D22: it ended it).
				stale := prev.(io.WriteCloser)
				for _, e := range []string{"C01", "C02"} {
					evid.For(e).Class("stale-writer-handle-used-while-a-later-message-is-open", 1)
				}
				if err := stale.Close(); err == nil {
					return fmt.Errorf("Close on the writer handle of an earlier, finished message returned nil while a later message was open")
				}
				if _, err := stale.Write([]byte("written through a stale handle")); err == nil {
					return fmt.Errorf("Write on the writer handle of an earlier, finished message returned nil while a later message was open")
				}
			}
		}
		if len(rest) > 0 || len(o.Chunks) == 0 {
			if _, err := w.Write(rest); err != nil {
				return err
			}
		}
		return w.Close()
	}
	return nil
}

// repeatedKeys: "keys that differ between frames". One equal neighbouring pair
// can happen by chance (2^-32 per pair); two in one case cannot in practice.
func repeatedKeys(keys [][4]byte) bool {
	// any two frames of the program, not only neighbours (a key schedule that repeats with a period)
	seen := map[[4]byte]bool{}
	repeats := 0
	for _, k := range keys {
		if seen[k] {
			repeats++
		}
		seen[k] = true
	}
	// how many chance repeats are out of the question for this many frames: the expected
	// number of colliding pairs is n^2 / 2^33; k repeats by chance have probability < lambda^k / k!
	lambda := float64(len(keys)) * float64(len(keys)) / float64(1<<33)
	k, p := 2, lambda*lambda/2
	for p > 1e-12 {
		k++
		p = p * lambda / float64(k)
	}
	return repeats >= k
}

// doBurst: a Write is held up by a zero window while it holds the frame lock,
// three Ping calls queue up behind it one after the other, then the window opens.
func doBurst(e *env, lc *libConn, o outOp, payload []byte) error {
	ctx := context.Background()
	typ := websocket.MessageBinary
	if o.Text {
		typ = websocket.MessageText
	}
	lc.End.SetInBudget(0)
	var werr error
	var perr [3]error
	wd := e.Call(func() { werr = lc.C.Write(ctx, typ, payload) })
	synctest.Wait()
	var pd [3]<-chan struct{}
	for j := range pd {
		j := j
		pd[j] = e.Call(func() { perr[j] = lc.C.Ping(ctx) })
		synctest.Wait()
	}
	lc.End.SetInBudget(-1)
	if !within(wd, 60*time.Second) {
		return fmt.Errorf("Write did not finish within 60 s after the window opened")
	}
	if werr != nil {
		return werr
	}
	for j := range pd {
		if !within(pd[j], 60*time.Second) {
			return fmt.Errorf("queued Ping %d did not finish within 60 s", j)
		}
		if perr[j] != nil {
			return fmt.Errorf("queued Ping %d: %w", j, perr[j])
		}
	}
	return nil
}

// cburstExtra: the payloads of the three Write calls that queue behind a held-up one.
func cburstExtra(o outOp) [3][]byte {
	var x [3][]byte
	for j := range x {
		x[j] = expand(j%numContentKinds, o.Seed+uint64(j)+7, []int{30, 700, 5000}[(int(o.Seed%3)+j)%3]+j)
	}
	return x
}

// doCBurst: a Write is held up by a zero window while it holds the message lock, three
// more Write calls (other goroutines) queue up behind it, then the window opens. Each
// of them must get the connection to itself for its message.
func doCBurst(e *env, lc *libConn, o outOp, payload []byte) error {
	ctx := context.Background()
	typ := websocket.MessageBinary
	if o.Text {
		typ = websocket.MessageText
	}
	lc.End.SetInBudget(0)
	var werr error
	var xerr [3]error
	x := cburstExtra(o)
	wd := e.Call(func() { werr = lc.C.Write(ctx, typ, payload) })
	synctest.Wait()
	var xd [3]<-chan struct{}
	for j := range xd {
		j := j
		xd[j] = e.Call(func() { xerr[j] = lc.C.Write(ctx, websocket.MessageBinary, x[j]) })
		synctest.Wait()
	}
	lc.End.SetInBudget(-1)
	if !within(wd, 60*time.Second) {
		return fmt.Errorf("Write did not finish within 60 s after the window opened")
	}
	if werr != nil {
		return werr
	}
	for j := range xd {
		if !within(xd[j], 60*time.Second) {
			return fmt.Errorf("queued Write %d did not finish within 60 s", j)
		}
		if xerr[j] != nil {
			return fmt.Errorf("queued Write %d: %w", j, xerr[j])
		}
	}
	return nil
}

// doStall: the peer accepts only o.Chunks[0] more bytes. While the Write is blocked
// the caller's buffer must look as it was handed over; then the window opens
// (wstall) or the peer drops the connection (wfail: the Write fails, and the buffer
// must still be intact).
func doStall(e *env, lc *libConn, o outOp, payload, keep []byte) (lost bool, err error) {
	typ := websocket.MessageBinary
	if o.Text {
		typ = websocket.MessageText
	}
	lc.End.SetInBudget(int64(o.Chunks[0]))
	var werr error
	wd := e.Call(func() { werr = lc.C.Write(context.Background(), typ, payload) })
	synctest.Wait()
	if !bytes.Equal(payload, keep) {
		lc.End.SetInBudget(-1)
		return false, fmt.Errorf("the caller's buffer differs from what was handed over WHILE the Write is held up in the transport after %d bytes (first difference at %d)", o.Chunks[0], firstDiff(payload, keep))
	}
	select {
	case <-wd: // everything fitted
		lc.End.SetInBudget(-1)
		return false, werr
	default:
	}
	if o.Kind == "wfail" {
		lc.End.Close()
		if !within(wd, 60*time.Second) {
			return true, fmt.Errorf("Write did not return within 60 s after the peer dropped the connection")
		}
		if werr == nil {
			return true, fmt.Errorf("Write returned nil although the peer dropped the connection after %d bytes", o.Chunks[0])
		}
		if !bytes.Equal(payload, keep) {
			return true, fmt.Errorf("the caller's buffer was left modified by a Write that failed in the transport (first difference at %d)", firstDiff(payload, keep))
		}
		return true, nil
	}
	lc.End.SetInBudget(-1)
	if !within(wd, 60*time.Second) {
		return false, fmt.Errorf("Write did not finish within 60 s after the window opened")
	}
	return false, werr
}

type c02Result struct {
	CtlAfterFirst int // control frames that directly follow the non-final first frame of a compressed message
	Rep           *ref.StreamReport
	Asymmetric    bool
	Deflate       bool
}

// peerClose (non-nil): instead of the program calling Close, the peer sends a Close frame
// with this payload after the last op (any code, also ones an endpoint must not send, or a
// malformed payload): the library's answer is a Close frame too, and underlies the same rules.
// c02PeerEndOp: the opcode of the frame with which the peer ends a program (payload: peerClose). A Close frame,
// or - the peer misbehaving - a control frame of more than 125 bytes: whatever the endpoint answers is subject to
// the same rules as everything else it emits (a Pong echoing 126 bytes is an oversize control frame of its own).
var c02PeerEndOp byte = ref.OpClose

func runC02(t fataler, mode c03Mode, threshold int, ops []outOp, closeCode int, closeReason string, doClose bool, storm bool, peerClose []byte) (string, c02Result) {
	var res c02Result
	e := newEnv(t)
	defer e.Teardown()
	lc, err := e.open(connSpec{Client: mode.Client, Mode: mode.Mode, Threshold: threshold, Ext: mode.Ext})
	if mode.Name == c02Unsolicited {
		if err != nil {
			evid.For("C02").Class("unsolicited-extension-in-the-response:dial-refused", 1)
			return "", res
		}
		lc.Agreed = wsx.Agreed{} // no offer, no agreement
	}
	if err != nil {
		return "handshake: " + err.Error(), res
	}
	p := lc.Peer
	p.onFrame = func(f ref.Frame) {
		switch f.Opcode {
		case ref.OpText, ref.OpBinary, ref.OpCont:
			if storm {
				// the library answers from its reader goroutine, racing with the program's own frames
				p.send(ref.Frame{Fin: true, Opcode: ref.OpPing, Payload: []byte{byte(len(f.Payload))}})
			}
		case ref.OpPing:
			p.send(ref.Frame{Fin: true, Opcode: ref.OpPong, Payload: f.Payload})
		case ref.OpClose:
			if peerClose == nil {
				p.send(ref.Frame{Fin: true, Opcode: ref.OpClose, Payload: f.Payload})
			}
		}
	}
	p.start(e)
	conn := lc.C
	defer lastWriters.Delete(conn)
	ctx := context.Background()
	// a library reader so that Pongs are consumed
	readerDone := e.Call(func() {
		for {
			if _, _, err := conn.Read(ctx); err != nil {
				return
			}
		}
	})
	type sent struct {
		typ     byte
		payload []byte
		group   int // > 0: written by concurrent calls, any order within the group
	}
	var want []sent
	nPings := 0
	var opErr string
	transportLost := false
	done := e.Call(func() {
		for i, o := range ops {
			payload := expand(o.CKind, o.Seed, o.Len)
			keep := append([]byte(nil), payload...)
			var err error
			if o.Kind == "burst" {
				err = doBurst(e, lc, o, payload)
			} else if o.Kind == "cburst" {
				err = doCBurst(e, lc, o, payload)
			} else if o.Kind == "wstall" || o.Kind == "wfail" {
				var lost bool
				lost, err = doStall(e, lc, o, payload, keep)
				if err == nil && lost {
					transportLost = true
					return
				}
			} else {
				err = doOutOp(ctx, conn, o, payload)
			}
			if err != nil {
				opErr = fmt.Sprintf("op %d %v failed: %v", i, o, err)
				return
			}
			if !bytes.Equal(payload, keep) {
				opErr = fmt.Sprintf("op %d %v modified the caller's buffer (first difference at %d)", i, o, firstDiff(payload, keep))
				return
			}
			if o.Kind == "ping" {
				nPings++
			} else if o.Kind == "reclose" {
				// nothing is sent
			} else {
				if o.Kind == "wping" {
					nPings++
				}
				if o.Kind == "burst" {
					nPings += 3
				}
				typ := byte(ref.OpBinary)
				if o.Text {
					typ = ref.OpText
				}
				want = append(want, sent{typ, keep, 0})
				if o.Kind == "wlock" {
					want = append(want, sent{ref.OpBinary, wlockExtra(o), 0})
				}
				if o.Kind == "cburst" {
					for _, x := range cburstExtra(o) {
						want = append(want, sent{ref.OpBinary, x, i + 1})
					}
				}
			}
		}
		if peerClose != nil {
			p.send(ref.Frame{Fin: true, Opcode: c02PeerEndOp, Payload: peerClose})
			if !within(readerDone, 60*time.Second) {
				opErr = "the reader did not fail within 60 s of the frame that ends the program (the peer's Close frame, or a control frame of more than 125 bytes)"
			}
			conn.CloseNow()
		} else if doClose {
			conn.Close(websocket.StatusCode(closeCode), closeReason)
		} else {
			conn.Close(websocket.StatusNormalClosure, "")
		}
	})
	if !within(done, 600*time.Second) {
		return "program did not finish within 600 s (virtual)", res
	}
	if ps := e.Panics(); len(ps) > 0 {
		return "library panicked: " + ps[0], res
	}
	if opErr != "" {
		return opErr, res
	}
	if transportLost {
		// the peer is gone: there is no complete stream to compare (what was written before is checked by other programs)
		return "", res
	}
	p.waitEOF(60 * time.Second)
	wire := lc.End.InRecording()
	takeover := lc.Agreed.SenderTakeover(mode.Client)
	res.Deflate = lc.Agreed.Deflate
	res.Asymmetric = lc.Agreed.Deflate && lc.Agreed.ClientNoCtx != lc.Agreed.ServerNoCtx
	// Close with arguments that cannot be sent drops the connection at once; a Pong that
	// the reader goroutine is writing at that moment (ping storm) may be cut short
	abrupt := storm && doClose && !(ref.Sendable(closeCode) && len(closeReason) <= 123 || closeCode == 1005)
	rep, verr := ref.ValidateStream(wire, ref.StreamOpts{FromClient: mode.Client, Deflate: lc.Agreed.Deflate, Takeover: takeover}, abrupt)
	res.Rep = rep
	if frames, _, ferr := ref.ParseFrames(wire); ferr == nil {
		for i := 1; i < len(frames); i++ {
			f0 := frames[i-1]
			if frames[i].IsControl() && !f0.IsControl() && f0.Opcode != ref.OpCont && !f0.Fin && lc.Agreed.Deflate {
				res.CtlAfterFirst++
			}
		}
	}
	if verr != nil {
		return fmt.Sprintf("emitted stream is not conformant (agreed: %+v, sender takeover=%v): %v", lc.Agreed, takeover, verr), res
	}
	if rep.Incomplete && !abrupt {
		return "emitted stream ends inside a message", res
	}
	if len(rep.Messages) != len(want) {
		return fmt.Sprintf("stream carries %d messages, %d were written", len(rep.Messages), len(want)), res
	}
	for i := 0; i < len(want); i++ {
		if g := want[i].group; g > 0 {
			// the messages of concurrent Write calls: each arrives exactly once, in any order
			j := i
			for j < len(want) && want[j].group == g {
				j++
			}
			used := make([]bool, j-i)
			for k := i; k < j; k++ {
				found := false
				for m := i; m < j; m++ {
					if !used[m-i] && rep.Messages[k].Type == want[m].typ && bytes.Equal(rep.Messages[k].Payload, want[m].payload) {
						used[m-i], found = true, true
						break
					}
				}
				if !found {
					return fmt.Sprintf("message %d on the wire (%d bytes) is none of the %d messages that concurrent Write calls wrote (or one of them twice)", k, len(rep.Messages[k].Payload), j-i), res
				}
			}
			i = j - 1
			continue
		}
		if rep.Messages[i].Type != want[i].typ {
			return fmt.Sprintf("message %d: type %d on the wire, %d written", i, rep.Messages[i].Type, want[i].typ), res
		}
		if !bytes.Equal(rep.Messages[i].Payload, want[i].payload) {
			return fmt.Sprintf("message %d: payload on the wire differs from what was written (%d vs %d bytes, first diff %d)", i, len(rep.Messages[i].Payload), len(want[i].payload), firstDiff(rep.Messages[i].Payload, want[i].payload)), res
		}
	}
	if len(rep.Pings) != nPings {
		return fmt.Sprintf("%d Ping frames on the wire, %d Ping calls", len(rep.Pings), nPings), res
	}
	if mode.Client && repeatedKeys(rep.Keys) {
		return "frames of this connection carry a masking key that an earlier frame already used (twice or more in this program)", res
	}
	if len(rep.Closes) == 0 {
		if peerClose != nil && len(peerClose) <= 125 {
			return "no Close frame on the wire in answer to the peer's Close frame", res
		}
		if !doClose || ref.Sendable(closeCode) && len(closeReason) <= 123 || closeCode == 1005 {
			return "no Close frame on the wire after Close()", res
		}
	} else {
		cp := rep.Closes[0]
		if len(cp) == 1 {
			return "Close frame with a one-byte payload", res
		}
		if len(cp) >= 2 {
			code, reason, ok := ref.ParseClose(cp)
			if !ok {
				return fmt.Sprintf("Close frame carries unsendable code %d", code), res
			}
			if len(reason) > 123 {
				return "Close reason longer than 123 bytes", res
			}
		}
	}
	return "", res
}

func TestC02(t *testing.T) {
	rec := evid.For("C02")
	rec.Rule = "rapid-generated programs of Write / Writer(chunk list) / Ping / Writer interrupted by a Ping after its first Write / a Write held up by a zero window with three Ping calls queued behind it / a second Close on the writer of an earlier message (1-8 ops, in a quarter of the programs the peer sends a Ping for every data frame it receives so that the automatic Pongs race with the program's frames; boundary-biased lengths up to 70000, 5 content kinds) optionally ended by Close(code, reason), over 19 (role, mode, foreign offer or response) settings incl. asymmetric context-takeover agreements and window-bits parameters, x 6 thresholds; the recorded outbound bytes are parsed by the strict reference decoder (masking per role, key reuse, minimal lengths, control-frame rules, fragmentation sequencing, RSV rules, inflation under the sender direction's takeover setting, reconstructed messages == written, Close payload). Non-trivial: >=1 compressed (RSV1) message, or a message of >=3 frames, or an asymmetric agreement. distinct = hash(setting, threshold, op shapes, close)."
	checkProp(t, func(rt *rapid.T) {
		mode := rapid.SampledFrom(c02Modes).Draw(rt, "mode")
		th := rapid.SampledFrom(c02Thresholds).Draw(rt, "threshold")
		ops := genOutOps(rt, 8, 70000, true)
		doClose := rapid.Bool().Draw(rt, "doClose")
		storm := rapid.IntRange(0, 3).Draw(rt, "storm") == 0
		code, reason := 1000, ""
		if doClose {
			code = rapid.OneOf(rapid.SampledFrom([]int{1000, 1001, 1003, 1008, 1011, 3000, 4999, 1005}), rapid.IntRange(0, 5100)).Draw(rt, "closeCode")
			rl := rapid.SampledFrom([]int{0, 1, 50, 122, 123, 124, 125}).Draw(rt, "reasonLen")
			switch rapid.IntRange(0, 2).Draw(rt, "reasonKind") {
			case 0:
				reason = c06Reason(rl, code)
			case 1:
				reason = c06ReasonMB(rl, code)
			default:
				// not valid UTF-8: every other byte is 0xff. Whatever the library does about it,
				// the Close frame stays a control frame of at most 125 bytes
				b := bytes.Repeat([]byte{'a', 0xff}, rl/2+1)
				reason = string(b[:rl])
			}
		}
		var peerClose []byte
		if !doClose && rapid.IntRange(0, 2).Draw(rt, "peerCloses") == 0 {
			pc := rapid.OneOf(rapid.SampledFrom([]int{1000, 1001, 1005, 1006, 1015, 1016, 2000, 2999, 3000, 4999, 5000, 999, 0, 65535}), rapid.IntRange(1012, 3001), rapid.IntRange(0, 65535)).Draw(rt, "peerCloseCode")
			prl := rapid.SampledFrom([]int{0, 0, 1, 50, 122, 123}).Draw(rt, "peerReasonLen")
			switch rapid.IntRange(0, 7).Draw(rt, "peerCloseShape") {
			case 0:
				peerClose = []byte{} // no status
			case 1:
				peerClose = []byte{byte(pc >> 8)} // malformed: one byte
			default:
				peerClose = append([]byte{byte(pc >> 8), byte(pc)}, c06Reason(prl, pc)...)
			}
		}
		c02PeerEndOp = ref.OpClose
		if peerClose != nil && rapid.IntRange(0, 3).Draw(rt, "peerEndsWithOversizeControl") == 0 {
			c02PeerEndOp = rapid.SampledFrom([]byte{ref.OpPing, ref.OpPing, ref.OpPong, ref.OpClose}).Draw(rt, "oversizeOp")
			peerClose = expand(ckText, uint64(len(ops)), rapid.SampledFrom([]int{126, 127, 128, 129, 200, 4096}).Draw(rt, "oversizeLen"))
			if c02PeerEndOp == ref.OpClose {
				copy(peerClose, []byte{0x03, 0xe8})
			}
		}
		var msg string
		var res c02Result
		rapid.SyncTest(rt, func(rt *rapid.T) {
			msg, res = runC02(rt, mode, th, ops, code, reason, doClose, storm, peerClose)
		})
		oversizeEnd := c02PeerEndOp
		c02PeerEndOp = ref.OpClose
		shape := fmt.Sprintf("%s|%d|%v%d|%v|%v", mode.Name, th, doClose, code, storm, peerClose != nil)
		for _, o := range ops {
			shape += fmt.Sprintf("|%s%d/%d/%d", o.Kind, o.CKind, lenClass(o.Len), len(o.Chunks))
		}
		nt := false
		classes := []string{"mode:" + mode.Name, fmt.Sprintf("threshold:%d", th)}
		if res.Rep != nil {
			if res.Rep.Rsv1Msgs > 0 {
				nt = true
				classes = append(classes, "has-compressed-message")
			}
			if res.Rep.MaxFrames >= 3 {
				nt = true
				classes = append(classes, "message>=3frames")
			}
			if res.Rep.WindowSlid {
				classes = append(classes, "window-slid")
			}
			if res.CtlAfterFirst > 0 {
				classes = append(classes, "control-frame-right-after-first-frame-of-compressed-message")
			}
		}
		if peerClose != nil && len(peerClose) > 125 {
			classes = append(classes, fmt.Sprintf("peer-ends-with-oversize-control-frame:op%x", oversizeEnd))
		}
		if peerClose != nil {
			classes = append(classes, "ended-by-peer-close-frame")
		}
		if res.Asymmetric {
			nt = true
			classes = append(classes, "asymmetric-agreement")
		}
		rec.Case(nt, shape, classes...)
		if rec.WantSample() {
			rec.Sample(map[string]any{"mode": mode.Name, "threshold": th, "ops": fmt.Sprint(ops), "ping_storm": storm, "close": doClose, "code": code, "reason_len": len(reason)})
		}
		if msg != "" {
			rt.Fatalf("C02 mode=%s threshold=%d ops=%v close=%v/%d/%d pingStorm=%v peerClose=%x: %s", mode.Name, th, ops, doClose, code, len(reason), storm, peerClose, msg)
		}
	})
}

// TestC02CloseQueued: a Write is held up in the transport (zero window) with the frame lock
// taken; Close queues behind it; then a further frame writer (Ping, Write, streamed Write,
// another Close) queues behind the Close; the window opens. Whatever the order in which the
// waiters get the lock, what the endpoint emits stays a conformant stream: the held-up message
// intact, and nothing behind the Close frame (RFC 6455 section 5.5.1). Enumerated.
func TestC02CloseQueued(t *testing.T) {
	rec := evid.For("C02")
	for _, mode := range []c03Mode{c16Modes[0], c16Modes[1], c16Modes[2], c16Modes[4]} {
		for _, later := range []string{"ping", "write", "write-big", "writer", "close", "ping+write"} {
			for _, size := range []int{100, 9000} {
				desc := fmt.Sprintf("closequeued|%s|%s|%d", mode.Name, later, size)
				var msg string
				synctest.Test(t, func(t *testing.T) {
					e := newEnv(t)
					defer e.Teardown()
					lc, err := e.open(connSpec{Client: mode.Client, Mode: mode.Mode, Ext: mode.Ext})
					if err != nil {
						msg = "handshake: " + err.Error()
						return
					}
					p := lc.Peer
					p.onFrame = func(f ref.Frame) {
						switch f.Opcode {
						case ref.OpClose:
							p.send(ref.Frame{Fin: true, Opcode: ref.OpClose, Payload: f.Payload})
						case ref.OpPing:
							p.send(ref.Frame{Fin: true, Opcode: ref.OpPong, Payload: f.Payload})
						}
					}
					p.start(e)
					e.Go(func() {
						for {
							if _, _, err := lc.C.Read(context.Background()); err != nil {
								return
							}
						}
					})
					ctx := context.Background()
					held := expand(ckRandom, 11, size)
					lc.End.SetInBudget(1) // the first byte of the frame gets out: the writer holds the frame lock
					var werr error
					wd := e.Call(func() { werr = lc.C.Write(ctx, websocket.MessageBinary, held) })
					synctest.Wait()
					cd := e.Call(func() { lc.C.Close(websocket.StatusNormalClosure, "queued close") })
					synctest.Wait()
					var ld []<-chan struct{}
					queue := func(f func()) {
						ld = append(ld, e.Call(f))
						synctest.Wait()
					}
					lctx, lcancel := context.WithTimeout(ctx, 20*time.Second)
					defer lcancel()
					if strings.Contains(later, "ping") {
						queue(func() { lc.C.Ping(lctx) })
					}
					switch {
					case strings.HasSuffix(later, "write"):
						queue(func() { lc.C.Write(lctx, websocket.MessageText, []byte("queued behind the close")) })
					case later == "write-big":
						queue(func() { lc.C.Write(lctx, websocket.MessageBinary, expand(ckText, 5, 70000)) })
					case later == "writer":
						queue(func() {
							if w, err := lc.C.Writer(lctx, websocket.MessageText); err == nil {
								w.Write([]byte("streamed, queued behind "))
								w.Write([]byte("the close"))
								w.Close()
							}
						})
					case later == "close":
						queue(func() { lc.C.Close(websocket.StatusGoingAway, "second closer") })
					}
					lc.End.SetInBudget(-1)
					for _, d := range append([]<-chan struct{}{wd, cd}, ld...) {
						if !within(d, 60*time.Second) {
							msg = "a call did not return within 60 s after the window opened"
							return
						}
					}
					p.waitEOF(30 * time.Second)
					rep, verr := ref.ValidateStream(lc.End.InRecording(), ref.StreamOpts{FromClient: mode.Client, Deflate: lc.Agreed.Deflate, Takeover: lc.Agreed.SenderTakeover(mode.Client)}, false)
					if verr != nil {
						msg = "emitted stream not well-formed: " + verr.Error()
						return
					}
					if len(rep.Closes) == 0 {
						msg = "no Close frame on the wire"
						return
					}
					if len(rep.AfterClose) > 0 {
						f := rep.AfterClose[0]
						msg = fmt.Sprintf("%d frame(s) follow the Close frame; the first has opcode %#x and %d payload bytes (a writer that queued behind Close got the frame lock after the Close frame had gone out)", len(rep.AfterClose), f.Opcode, len(f.Payload))
						return
					}
					// (a message of several frames may be cut off by the Close frame, which is a control frame and may
					// take its turn between them: the Write then fails. A Write that returned nil was delivered.)
					if werr == nil && (len(rep.Messages) == 0 || !bytes.Equal(rep.Messages[0].Payload, held)) {
						msg = "the held-up Write returned nil but its message did not arrive intact in front of the Close frame"
					}
				})
				rec.Case(true, desc, "frame-writers-queued-behind-a-queued-Close")
				if msg != "" {
					failCase(t, "C02", desc, "%s", msg)
				}
			}
		}
	}
}
