package props

import (
	"bytes"
	"context"
	"errors"
	"fmt"
	"io"
	"net"
	"os"
	"strings"
	"testing"
	"testing/synctest"
	"time"

	"nhooyr.io/websocket"
	"pgregory.net/rapid"
	"verif/harness/evid"
	"verif/harness/memconn"
	"verif/harness/ref"
)

// C18 — NetConn is a faithful byte stream with correct EOF, type check and deadlines.

type c18Case struct {
	Mode    c03Mode
	Text    bool
	In      []int // sizes of inbound messages
	InFrags int
	Bufs    []int  // read buffer sizes, cycled
	Out     []int  // Write sizes
	Ending  string // close-1000 | close-1001 | close-other | transport-eof | transport-reset | wrong-type
	WrongAt int
	// WrongPartial: of the message of the wrong type only the first fragment arrives (a peer streaming it); its
	// type is known from that frame, and the rest never comes
	WrongPartial bool
	Code         int
	// Hangup: the peer closes the transport right behind its Close frame instead of
	// waiting for the echo (only drawn when this side writes nothing itself).
	Hangup bool
	// MaxRead caps every transport read of the library (0 = none): frames, control frames
	// included, arrive in pieces. Pings: the peer sends a Ping before each message.
	MaxRead int
	Pings   bool
	// SplitHeader > 0: the first SplitHeader bytes of the header of every message's first
	// frame arrive 50 ms before the rest, and this side's k-th Write happens in the middle
	// of the k-th such gap: a Read parked inside a frame header while the connection writes.
	SplitHeader int
	// Early (server role): the first message arrives in the same segment as the handshake
	// request (a client that does not wait), or only its first Early bytes do.
	Early int
}

var c18Sizes = []int{0, 0, 1, 2, 100, 125, 126, 4095, 4096, 4097, 20000, 65535, 65536, 70000}
var c18Bufs = []int{1, 2, 3, 16, 100, 512, 4096, 4097, 32768, 65536, 100000}

func genC18(rt *rapid.T) c18Case {
	var c c18Case
	c.Mode = rapid.SampledFrom(c16Modes).Draw(rt, "mode")
	c.Text = rapid.Bool().Draw(rt, "text")
	for i := rapid.IntRange(0, 6).Draw(rt, "nIn"); i > 0; i-- {
		c.In = append(c.In, rapid.SampledFrom(c18Sizes).Draw(rt, "inSize"))
	}
	c.InFrags = rapid.IntRange(1, 3).Draw(rt, "inFrags")
	for i := rapid.IntRange(1, 4).Draw(rt, "nBufs"); i > 0; i-- {
		c.Bufs = append(c.Bufs, rapid.SampledFrom(c18Bufs).Draw(rt, "buf"))
	}
	for i := rapid.IntRange(0, 5).Draw(rt, "nOut"); i > 0; i-- {
		c.Out = append(c.Out, rapid.SampledFrom(c18Sizes).Draw(rt, "outSize"))
	}
	c.Ending = rapid.SampledFrom([]string{"close-1000", "close-1001", "close-other", "transport-eof", "transport-reset", "wrong-type"}).Draw(rt, "ending")
	c.Code = rapid.SampledFrom([]int{1002, 1008, 1011, 3000, 4999, -1}).Draw(rt, "otherCode")
	c.WrongAt = rapid.IntRange(0, len(c.In)).Draw(rt, "wrongAt")
	c.WrongPartial = c.Ending == "wrong-type" && rapid.IntRange(0, 2).Draw(rt, "wrongTypeFirstFragmentOnly") == 0
	c.MaxRead = rapid.SampledFrom([]int{0, 0, 0, 1, 2, 7}).Draw(rt, "maxRead")
	c.Pings = rapid.Bool().Draw(rt, "peerPings")
	if !c.Mode.Client && len(c.In) > 0 && !(c.Ending == "wrong-type" && c.WrongAt == 0) && rapid.IntRange(0, 2).Draw(rt, "early") == 0 {
		c.Early = rapid.SampledFrom([]int{1, 2, 7, 1 << 20}).Draw(rt, "earlyBytes")
	}
	if rapid.IntRange(0, 2).Draw(rt, "splitHeaders") == 0 {
		c.SplitHeader = rapid.IntRange(1, 13).Draw(rt, "splitHeaderAt")
	}
	if len(c.Out) == 0 && strings.HasPrefix(c.Ending, "close-") {
		c.Hangup = rapid.Bool().Draw(rt, "hangup")
		if c.Hangup {
			c.Pings = false // a Pong cannot be written to a peer that is gone: the Read that has to answer fails, rightly
		}
	}
	return c
}

func isDeadlineErr(err error) bool {
	if err == nil {
		return false
	}
	if errors.Is(err, context.DeadlineExceeded) || errors.Is(err, os.ErrDeadlineExceeded) {
		return true
	}
	var ne net.Error
	return errors.As(err, &ne) && ne.Timeout()
}

type c18Result struct {
	Spanning bool
}

// c18Payload: the content of inbound message i. In half of the cases the messages are random and unrelated; in the
// other half they all begin alike, so that with context takeover the peer's compressor refers back to the compressed
// messages before - and only to those, whatever uncompressed messages went out in between.
func c18Payload(c c18Case, i, n int) []byte {
	if c.WrongAt%2 == 1 {
		return expand(ckText, 11, n)
	}
	return expand(ckRandom, uint64(i)+11, n)
}

func runC18Stream(t fataler, c c18Case) (string, c18Result) {
	var res c18Result
	e := newEnv(t)
	defer e.Teardown()
	spec := connSpec{Client: c.Mode.Client, Mode: c.Mode.Mode, Ext: c.Mode.Ext}
	var late []byte // the part of the first message that does not come with the request
	if c.Early > 0 {
		op0 := byte(ref.OpBinary)
		if c.Text {
			op0 = ref.OpText
		}
		_, b, _ := finishMasking([]ref.Frame{{Fin: true, Opcode: op0, Payload: c18Payload(c, 0, c.In[0])}}, false)
		k := min(c.Early, len(b))
		spec.Pipelined, late = b[:k], b[k:]
	}
	lc, err := e.open(spec)
	if err != nil {
		return "handshake: " + err.Error(), res
	}
	p := lc.Peer
	p.onFrame = func(f ref.Frame) {
		if f.Opcode == ref.OpClose {
			p.send(ref.Frame{Fin: true, Opcode: ref.OpClose, Payload: f.Payload})
		}
	}
	p.start(e)
	if c.MaxRead > 0 {
		lc.End.SetPeerMaxRead(c.MaxRead)
	}
	typ, op, wrongOp := websocket.MessageBinary, byte(ref.OpBinary), byte(ref.OpText)
	if c.Text {
		typ, op, wrongOp = websocket.MessageText, ref.OpText, ref.OpBinary
	}
	nc := websocket.NetConn(context.Background(), lc.C, typ)
	def := ref.NewDeflater(lc.Agreed.SenderTakeover(!c.Mode.Client))
	// inbound
	var wantIn []byte
	sendMsg := func(i int, payload []byte, opcode byte) {
		raw := payload
		comp := lc.Agreed.Deflate && i%2 == 1
		if comp {
			// every foreign way of ending a compressed message in turn (a final block hands its last bytes over together with the end of the stream)
			raw = def.Message(payload, ref.DeflateVariant((i/2+c.WrongAt)%int(ref.NumDeflateVariants)))
		}
		per := len(raw)/c.InFrags + 1
		for j, off := 0, 0; j < c.InFrags; j++ {
			end := off + per
			if end > len(raw) || j == c.InFrags-1 {
				end = len(raw)
			}
			f := ref.Frame{Fin: j == c.InFrags-1, Payload: raw[off:end]}
			if j == 0 {
				f.Opcode, f.Rsv1 = opcode, comp
			}
			if j == 0 && c.SplitHeader > 0 {
				b := p.prep(f).Encode()
				k := min(c.SplitHeader, len(b)-len(f.Payload)-1)
				p.sendRaw(b[:k])
				e.sleep(50 * time.Millisecond)
				p.sendRaw(b[k:])
			} else {
				p.send(f)
			}
			off = end
		}
	}
	e.Go(func() {
		for i, n := range c.In {
			if c.Ending == "wrong-type" && i == c.WrongAt {
				break
			}
			pl := c18Payload(c, i, n)
			if i == 0 && c.Early > 0 {
				p.sendRaw(late)
				continue
			}
			if c.Pings {
				p.send(ref.Frame{Fin: true, Opcode: ref.OpPing, Payload: []byte("ping!")})
			}
			sendMsg(i, pl, op)
		}
		switch c.Ending {
		case "close-1000":
			p.send(ref.Frame{Fin: true, Opcode: ref.OpClose, Payload: ref.ClosePayload(1000, "")})
		case "close-1001":
			p.send(ref.Frame{Fin: true, Opcode: ref.OpClose, Payload: ref.ClosePayload(1001, "going away")})
		case "close-other":
			var pl []byte
			if c.Code >= 0 {
				pl = ref.ClosePayload(c.Code, "other")
			}
			p.send(ref.Frame{Fin: true, Opcode: ref.OpClose, Payload: pl})
		case "transport-eof":
			lc.End.CloseWrite(nil)
		case "transport-reset":
			lc.End.CloseWrite(memconn.ErrReset)
		case "wrong-type":
			if c.WrongPartial {
				p.send(ref.Frame{Fin: false, Opcode: wrongOp, Payload: []byte("a message of")})
				evid.For("C18").Class("wrong-type:first-fragment-only", 1)
			} else {
				sendMsg(0, []byte("a message of the other type"), wrongOp)
			}
		}
		if c.Hangup {
			lc.End.Close() // everything sent stays readable; the echo of the Close frame cannot be written any more
		}
	})
	for i, n := range c.In {
		if c.Ending == "wrong-type" && i == c.WrongAt {
			break
		}
		wantIn = append(wantIn, c18Payload(c, i, n)...)
	}
	// outbound writer
	var wantOut [][]byte
	for i, n := range c.Out {
		wantOut = append(wantOut, expand(ckPattern, uint64(i)+5, n))
	}
	var werr error
	wdone := e.Call(func() {
		for _, b := range wantOut {
			if c.SplitHeader > 0 {
				e.sleep(10 * time.Millisecond)
			}
			keep := append([]byte(nil), b...)
			n, err := nc.Write(b)
			if err != nil {
				werr = err
				return
			}
			if n != len(b) || !bytes.Equal(b, keep) {
				werr = fmt.Errorf("Write returned %d for %d bytes or modified the buffer", n, len(b))
				return
			}
			if c.SplitHeader > 0 {
				e.sleep(40 * time.Millisecond)
			}
		}
	})
	// reader
	var got []byte
	var rerr error
	zeroRead := false
	maxRead := 0
	rdone := e.Call(func() {
		for i := 0; ; i++ {
			buf := make([]byte, c.Bufs[i%len(c.Bufs)])
			n, err := nc.Read(buf)
			got = append(got, buf[:n]...)
			if n > maxRead {
				maxRead = n
			}
			if err != nil {
				rerr = err
				return
			}
			if n == 0 {
				zeroRead = true
				return
			}
		}
	})
	if !within(rdone, 120*time.Second) {
		return "NetConn reads did not end within 120 s", res
	}
	if zeroRead {
		return "NetConn.Read returned 0, nil", res
	}
	if !bytes.Equal(got, wantIn) {
		return fmt.Sprintf("bytes read (%d) differ from the concatenation of the messages sent (%d); first difference at %d", len(got), len(wantIn), firstDiff(got, wantIn)), res
	}
	switch c.Ending {
	case "close-1000", "close-1001":
		if rerr != io.EOF {
			return fmt.Sprintf("peer closed with %s but Read returned %v, want io.EOF", c.Ending, rerr), res
		}
		n, err := nc.Read(make([]byte, 10))
		if n != 0 || err != io.EOF {
			return fmt.Sprintf("Read after EOF returned %d, %v", n, err), res
		}
	case "close-other", "transport-eof", "transport-reset":
		if rerr == nil || rerr == io.EOF {
			return fmt.Sprintf("ending %s (code %d) but Read returned %v", c.Ending, c.Code, rerr), res
		}
	case "wrong-type":
		if rerr == nil || rerr == io.EOF {
			return fmt.Sprintf("a message of the wrong type was received but Read returned %v", rerr), res
		}
	}
	if !within(wdone, 60*time.Second) {
		return "NetConn writes did not end within 60 s", res
	}
	nc.Close()
	p.waitEOF(30 * time.Second)
	wire := lc.End.InRecording()
	rep, verr := ref.ValidateStream(wire, ref.StreamOpts{FromClient: c.Mode.Client, Deflate: lc.Agreed.Deflate, Takeover: lc.Agreed.SenderTakeover(c.Mode.Client)}, true)
	if verr != nil {
		return "emitted stream invalid: " + verr.Error(), res
	}
	if werr == nil {
		if len(rep.Messages) != len(wantOut) {
			return fmt.Sprintf("%d messages on the wire for %d Writes", len(rep.Messages), len(wantOut)), res
		}
	}
	for i, m := range rep.Messages {
		if i >= len(wantOut) {
			return "more messages on the wire than Writes", res
		}
		if m.Type != op || !bytes.Equal(m.Payload, wantOut[i]) {
			return fmt.Sprintf("Write %d arrived as type %d with %d bytes (want type %d, %d bytes)", i, m.Type, len(m.Payload), op, len(wantOut[i])), res
		}
	}
	if c.Ending == "wrong-type" {
		saw := false
		for _, cp := range rep.Closes {
			if code, _, ok := ref.ParseClose(cp); ok && code == 1003 {
				saw = true
			}
		}
		if !saw {
			return fmt.Sprintf("wrong message type: no Close frame with status 1003 on the wire (closes: %x)", rep.Closes), res
		}
	}
	for _, n := range c.In {
		for _, b := range c.Bufs {
			if b < n {
				res.Spanning = true
			}
		}
	}
	if ps := e.Panics(); len(ps) > 0 {
		return "library panicked: " + ps[0], res
	}
	return "", res
}

func TestC18(t *testing.T) {
	rec := evid.For("C18")
	rec.Rule = "stream: rapid draws inbound message sizes (0..70000, boundary-biased, fragmented, alternately compressed by every foreign deflater variant incl. BFINAL=1 endings, optionally each preceded by a Ping, on servers optionally the first message or its first 1/2/7 bytes arriving in the segment of the handshake request, optionally the header of every message's first frame arriving in two pieces 50 ms apart with one of this side's Writes in the gap, the transport delivering at most 1/2/7 bytes per read or everything at once) against cycled Read buffer sizes (1..100000), Write sizes, message type, role/compression, and an ending {peer Close 1000, 1001, another code or empty - with the peer waiting for the echo or hanging up right behind its Close frame -, transport EOF, transport reset, a message of the wrong type at a drawn position}; deadlines: rapid-drawn scripts of SetReadDeadline/SetWriteDeadline/SetDeadline (past, future, zero) before, between and during calls on the fake clock. Non-trivial: a read buffer smaller than a message (message spans several reads), or an idle expiry followed by a reset and further traffic. distinct = hash of the case."
	checkProp(t, func(rt *rapid.T) {
		c := genC18(rt)
		var msg string
		var res c18Result
		rapid.SyncTest(rt, func(rt *rapid.T) { msg, res = runC18Stream(rt, c) })
		rec.Case(res.Spanning, fmt.Sprintf("stream|%+v", c), "stream", "ending:"+c.Ending, "mode:"+c.Mode.Name)
		if rec.WantSample() {
			rec.Sample(fmt.Sprintf("%+v", c))
		}
		if msg != "" {
			rt.Fatalf("C18 %+v: %s", c, msg)
		}
	})
}

// ---- deadlines ----

type c18Step struct {
	Op  string // set-read | set-write | set-both | idle | read | write | reset-read | reset-write | reset-both
	How string // past | future | zero (for set-*); zero | far (for reset-*)
	// Quick (read / write steps): the call follows the previous step at once, without the clock moving in between
	Quick bool
	Small bool          // read steps: into a 2-byte buffer
	D     time.Duration // future offset / idle length
}

type c18DL struct {
	Client bool
	Steps  []c18Step
	Final  string // active-read | active-write | none
	FinalD time.Duration
	// StallK > 0 (final reads only): the blocked Read sits in the middle of a frame header whose first
	// StallK bytes arrived together with the message in front of it (a 70000-byte frame, so the header has 10 / 14 bytes)
	StallK int
	// PongInside (final active-write only): permessage-deflate is on, the peer takes the written message
	// 1000 bytes at a time, pings once while it is arriving and then stops taking anything: the write
	// deadline fires during a Write that has a Pong between two of its frames.
	PongInside bool
}

func genC18DL(rt *rapid.T) c18DL {
	var c c18DL
	c.Client = rapid.Bool().Draw(rt, "client")
	n := rapid.IntRange(2, 10).Draw(rt, "nSteps")
	for i := 0; i < n; i++ {
		var s c18Step
		s.Op = rapid.SampledFrom([]string{"set-read", "set-write", "set-both", "idle", "idle", "read", "read", "write", "reset-read", "reset-write", "reset-both"}).Draw(rt, "op")
		switch {
		case s.Op == "idle":
			s.D = rapid.SampledFrom([]time.Duration{time.Millisecond, time.Second, 5 * time.Second}).Draw(rt, "idle")
		case strings.HasPrefix(s.Op, "set"):
			s.How = rapid.SampledFrom([]string{"past", "future", "future", "zero"}).Draw(rt, "how")
			s.D = rapid.SampledFrom([]time.Duration{time.Millisecond, 500 * time.Millisecond, 3 * time.Second}).Draw(rt, "d")
		case strings.HasPrefix(s.Op, "reset"):
			s.How = rapid.SampledFrom([]string{"zero", "far"}).Draw(rt, "resetHow")
		case s.Op == "read" || s.Op == "write":
			s.Quick = rapid.Bool().Draw(rt, "atOnce")
			// a Read into a buffer smaller than the message leaves the rest of the message for the next
			// Read: a deadline that passes meanwhile holds for that rest as for anything else
			s.Small = s.Op == "read" && rapid.Bool().Draw(rt, "smallBuf")
		}
		c.Steps = append(c.Steps, s)
	}
	c.Final = rapid.SampledFrom([]string{"active-read", "active-write", "during-read-past", "during-read-future", "during-write-past", "during-write-future", "none"}).Draw(rt, "final")
	c.FinalD = rapid.SampledFrom([]time.Duration{time.Millisecond, time.Second, 7 * time.Second}).Draw(rt, "finalD")
	if c.Final == "active-write" {
		c.PongInside = rapid.Bool().Draw(rt, "pongInsideWrite")
	}
	if strings.Contains(c.Final, "read") && rapid.Bool().Draw(rt, "stallInHeader") {
		// 1..13: inside the header; 101..107: the whole header and 1..7 bytes of the payload (fewer than the 8-byte buffer the final Read asks for)
		c.StallK = rapid.OneOf(rapid.IntRange(1, 13), rapid.IntRange(1, 13), rapid.IntRange(101, 107)).Draw(rt, "stallK")
	}
	return c
}

type c18DLResult struct {
	IdleExpiryThenReset bool
}

func runC18DL(t fataler, c c18DL) (string, c18DLResult) {
	var res c18DLResult
	e := newEnv(t)
	defer e.Teardown()
	spec := connSpec{Client: c.Client}
	if c.PongInside {
		spec.Mode, spec.Ext = websocket.CompressionContextTakeover, "permessage-deflate"
	}
	lc, err := e.open(spec)
	if err != nil {
		return "handshake: " + err.Error(), res
	}
	p := lc.Peer
	p.start(e)
	nc := websocket.NetConn(context.Background(), lc.C, websocket.MessageBinary)
	// model: per direction, the instant at which the deadline expires (zero = none) and whether it has expired idle
	var rdl, wdl time.Time
	rexp, wexp := false, false
	now := func() time.Time { return time.Now() }
	tick := func() {
		// timers that fired while no call was active mark the direction expired
		if !rdl.IsZero() && !now().Before(rdl) {
			rexp, rdl = true, time.Time{}
		}
		if !wdl.IsZero() && !now().Before(wdl) {
			wexp, wdl = true, time.Time{}
		}
	}
	sawExpiry, sawReset := false, false
	pastR, pastW := false, false // the current read / write deadline was already in the past when it was set
	seq := 0
	var pending []byte // sent by the peer, not yet handed out by a Read
	for i, s := range c.Steps {
		// Never act at the very instant a deadline timer fires: whether the call
		// or the timer comes first is then up to the scheduler (a tie, not a property).
		for (!rdl.IsZero() && rdl.Equal(now())) || (!wdl.IsZero() && wdl.Equal(now())) {
			evid.For("C18").Class("tie-with-deadline-instant-avoided", 1)
			e.sleep(time.Microsecond)
		}
		tick()
		at := func(how string, d time.Duration) time.Time {
			switch how {
			case "past":
				return now().Add(-time.Second)
			case "future":
				return now().Add(d)
			case "far":
				return now().Add(24 * time.Hour)
			}
			return time.Time{}
		}
		model := func(how string, d time.Duration) time.Time {
			switch how {
			case "past":
				return now().Add(time.Nanosecond) // fires as soon as time moves at all
			case "future":
				return now().Add(d)
			case "far":
				return now().Add(24 * time.Hour)
			}
			return time.Time{}
		}
		switch s.Op {
		case "set-read", "reset-read":
			nc.SetReadDeadline(at(s.How, s.D))
			rdl, rexp, pastR = model(s.How, s.D), false, s.How == "past"
		case "set-write", "reset-write":
			nc.SetWriteDeadline(at(s.How, s.D))
			wdl, wexp, pastW = model(s.How, s.D), false, s.How == "past"
		case "set-both", "reset-both":
			nc.SetDeadline(at(s.How, s.D))
			rdl, rexp, pastR = model(s.How, s.D), false, s.How == "past"
			wdl, wexp, pastW = model(s.How, s.D), false, s.How == "past"
		case "idle":
			e.sleep(s.D)
		case "read":
			// A deadline that was ALREADY in the past when it was set (the SetReadDeadline(aLongTimeAgo) idiom) has
			// passed while no call was active: the very next call fails with a deadline error, however soon it
			// comes (defect D23: the library decided that on a timer goroutine, lost the race against the
			// caller's next statement and killed the connection). A FUTURE deadline that expires at this very
			// instant is a tie the scheduler decides; the clock moves on first.
			if !(pastR && s.Quick) {
				e.sleep(time.Microsecond)
			}
			tick()
			if pastR {
				rexp = true
			}
			seq++
			pl := []byte(fmt.Sprintf("in-%d", seq))
			p.send(ref.Frame{Fin: true, Opcode: ref.OpBinary, Payload: pl})
			pending = append(pending, pl...)
			buf := make([]byte, 64)
			if s.Small {
				buf = buf[:2]
				evid.For("C18").Class("deadline-steps:read-leaves-part-of-a-message", 1)
			}
			var n int
			var err error
			d := e.Call(func() { n, err = nc.Read(buf) })
			if !within(d, 10*time.Second) {
				return fmt.Sprintf("step %d: Read did not return", i), res
			}
			// what a Read hands out is the next bytes of the stream: all that is left of the message it is in,
			// or as much of it as the buffer holds
			okRead := func() bool {
				return err == nil && n > 0 && bytes.HasPrefix(pending, buf[:n])
			}
			if rexp {
				sawExpiry = true
				if !isDeadlineErr(err) {
					return fmt.Sprintf("step %d: read deadline passed while idle, but Read returned %d, %v (want a deadline error; %d bytes of earlier messages were still unread)", i, n, err, len(pending)-len(pl)), res
				}
				// the message is still there: read it after a reset
				nc.SetReadDeadline(time.Time{})
				rexp, rdl, pastR = false, time.Time{}, false
				sawReset = true
				d := e.Call(func() { n, err = nc.Read(buf) })
				if !within(d, 10*time.Second) || !okRead() {
					return fmt.Sprintf("step %d: after resetting the read deadline, Read returned %q, %v (want the start of %q): the connection must stay usable", i, buf[:n], err, pending), res
				}
			} else {
				if !okRead() {
					return fmt.Sprintf("step %d: Read returned %q, %v (want the start of %q); read deadline state: %v", i, buf[:n], err, pending, rdl), res
				}
			}
			pending = pending[n:]
		case "write":
			if !(pastW && s.Quick) {
				e.sleep(time.Microsecond)
			}
			tick()
			if pastW {
				wexp = true
			}
			seq++
			pl := []byte(fmt.Sprintf("out-%d", seq))
			var n int
			var err error
			d := e.Call(func() { n, err = nc.Write(pl) })
			if !within(d, 10*time.Second) {
				return fmt.Sprintf("step %d: Write did not return", i), res
			}
			if wexp {
				sawExpiry = true
				if !isDeadlineErr(err) {
					return fmt.Sprintf("step %d: write deadline passed while idle, but Write returned %d, %v (want a deadline error)", i, n, err), res
				}
				nc.SetWriteDeadline(time.Time{})
				wexp, wdl, pastW = false, time.Time{}, false
				sawReset = true
				d := e.Call(func() { n, err = nc.Write(pl) })
				if !within(d, 10*time.Second) || err != nil {
					return fmt.Sprintf("step %d: after resetting the write deadline, Write failed: %v", i, err), res
				}
			} else if err != nil || n != len(pl) {
				return fmt.Sprintf("step %d: Write returned %d, %v; write deadline state: %v", i, n, err, wdl), res
			}
		}
		if cl, _ := lc.Lib.Closed(); cl {
			return fmt.Sprintf("step %d (%+v): the connection was closed although no deadline fired during an active call", i, s), res
		}
	}
	res.IdleExpiryThenReset = sawExpiry && sawReset
	// final: a deadline that fires during an active call fails that call at the deadline and closes the connection
	for (!rdl.IsZero() && rdl.Equal(now())) || (!wdl.IsZero() && wdl.Equal(now())) {
		e.sleep(time.Microsecond)
	}
	nc.SetDeadline(time.Time{})
	for len(pending) > 0 {
		// what the steps left unread is read now: the final call must find nothing to hand out
		buf := make([]byte, 64)
		var n int
		var err error
		d := e.Call(func() { n, err = nc.Read(buf) })
		if !within(d, 10*time.Second) || err != nil || n == 0 || !bytes.HasPrefix(pending, buf[:n]) {
			return fmt.Sprintf("before the final call: Read returned %q, %v (want the start of %q)", buf[:n], err, pending), res
		}
		pending = pending[n:]
	}
	if c.StallK > 0 {
		first := ref.Frame{Fin: true, Opcode: ref.OpBinary, Payload: []byte("in front")}
		next := ref.Frame{Fin: true, Opcode: ref.OpBinary, Payload: make([]byte, 70000)}
		_, b0, _ := finishMasking([]ref.Frame{first}, c.Client)
		_, b1, _ := finishMasking([]ref.Frame{next}, c.Client)
		k := c.StallK
		if hdr := len(b1) - 70000; k > 100 {
			k = hdr + k - 100 // in the payload
		} else if k >= hdr {
			k = hdr - 1
		}
		p.sendRaw(append(append([]byte(nil), b0...), b1[:k]...))
		buf := make([]byte, 64)
		var n int
		var err error
		d := e.Call(func() { n, err = nc.Read(buf) })
		if !within(d, 10*time.Second) || err != nil || string(buf[:n]) != "in front" {
			return fmt.Sprintf("the message in front of the stalled header was not delivered: %q, %v", buf[:n], err), res
		}
	}
	switch c.Final {
	case "active-read":
		nc.SetReadDeadline(time.Now().Add(c.FinalD))
		start := time.Now()
		var err error
		d := e.Call(func() { _, err = nc.Read(make([]byte, 8)) })
		if !within(d, c.FinalD+time.Second) {
			return "Read blocked past its deadline + 1 s", res
		}
		if err == nil {
			return "Read returned nil although nothing was sent", res
		}
		if el := time.Since(start); el < c.FinalD {
			return fmt.Sprintf("Read failed after %v, before its deadline %v: %v", el, c.FinalD, err), res
		}
		e.sleep(time.Second)
		if cl, _ := lc.Lib.Closed(); !cl {
			return "a read deadline fired during an active Read but the connection was not closed", res
		}
	case "active-write":
		lc.End.SetInBudget(0)
		payload := make([]byte, 9000)
		if c.PongInside {
			payload = expand(ckText, 77, 70000) // goes out as some eighty small frames
			e.Go(func() {
				b := make([]byte, 64)
				for {
					if _, err := nc.Read(b); err != nil {
						return
					}
				}
			})
			e.Go(func() {
				for i := 0; i < 8; i++ {
					if !e.sleep(c.FinalD / 20) {
						return
					}
					lc.End.AddInBudget(1000)
					if i == 2 {
						p.send(ref.Frame{Fin: true, Opcode: ref.OpPing, Payload: []byte("mid-message")})
					}
				}
			})
		}
		nc.SetWriteDeadline(time.Now().Add(c.FinalD))
		start := time.Now()
		var err error
		keep := append([]byte(nil), payload...)
		if !c.PongInside {
			fillBytes(payload, 99)
			copy(keep, payload)
		}
		d := e.Call(func() { _, err = nc.Write(payload) })
		// a net.Conn's Write must not modify the slice it is given, not even temporarily (io.Writer): an
		// application that hands the same buffer to several connections, or reads it meanwhile, sees it
		synctest.Wait()
		if !bytes.Equal(payload, keep) {
			return fmt.Sprintf("the buffer passed to NetConn's Write differs from what the caller put there WHILE the Write is blocked in the transport (first difference at %d of %d)", firstDiff(payload, keep), len(keep)), res
		}
		if !within(d, c.FinalD+time.Second) {
			return "Write blocked past its deadline + 1 s", res
		}
		if !bytes.Equal(payload, keep) {
			return fmt.Sprintf("the buffer passed to NetConn's Write was left modified by a Write that failed (first difference at %d of %d)", firstDiff(payload, keep), len(keep)), res
		}
		if err == nil {
			return "Write returned nil although the peer accepts nothing", res
		}
		if el := time.Since(start); el < c.FinalD {
			return fmt.Sprintf("Write failed after %v, before its deadline %v: %v", el, c.FinalD, err), res
		}
		e.sleep(time.Second)
		if cl, _ := lc.Lib.Closed(); !cl {
			return "a write deadline fired during an active Write but the connection was not closed", res
		}
	}
	// a deadline set (in the past or the near future) from another goroutine WHILE a call is blocked
	if strings.HasPrefix(c.Final, "during-") {
		write := strings.Contains(c.Final, "write")
		past := strings.HasSuffix(c.Final, "past")
		var err error
		var d <-chan struct{}
		if write {
			lc.End.SetInBudget(0)
			d = e.Call(func() { _, err = nc.Write(make([]byte, 9000)) })
		} else {
			d = e.Call(func() { _, err = nc.Read(make([]byte, 8)) })
		}
		synctest.Wait() // the call is blocked now
		e.sleep(250 * time.Millisecond)
		start := time.Now()
		wait := time.Duration(0)
		dl := start.Add(-time.Second)
		if !past {
			wait = c.FinalD
			dl = start.Add(c.FinalD)
		}
		if write {
			nc.SetWriteDeadline(dl)
		} else {
			nc.SetReadDeadline(dl)
		}
		if !within(d, wait+time.Second) {
			return fmt.Sprintf("%s: a deadline (%v from now) set while the call was blocked did not end it within 1 s of the deadline", c.Final, wait), res
		}
		if err == nil {
			return c.Final + ": the blocked call returned nil", res
		}
		if el := time.Since(start); el < wait {
			return fmt.Sprintf("%s: the call failed after %v, before its deadline %v: %v", c.Final, el, wait, err), res
		}
		e.sleep(time.Second)
		if cl, _ := lc.Lib.Closed(); !cl {
			return c.Final + ": a deadline fired during an active call but the connection was not closed", res
		}
	}
	if ps := e.Panics(); len(ps) > 0 {
		return "library panicked: " + ps[0], res
	}
	return "", res
}

func TestC18Deadlines(t *testing.T) {
	rec := evid.For("C18")
	checkProp(t, func(rt *rapid.T) {
		c := genC18DL(rt)
		var msg string
		var res c18DLResult
		rapid.SyncTest(rt, func(rt *rapid.T) { msg, res = runC18DL(rt, c) })
		rec.Case(res.IdleExpiryThenReset, fmt.Sprintf("dl|%+v", c), "deadlines", "final:"+c.Final)
		if res.IdleExpiryThenReset {
			rec.Class("idle-expiry-then-reset", 1)
		}
		if msg != "" {
			rt.Fatalf("C18 deadlines %+v: %s", c, msg)
		}
	})
}

// Regression replay (finding D16): a deadline timer that fires at the very
// moment its deadline is reset must not kill the next call.
func TestC18Regress(t *testing.T) {
	for i := 0; i < 300; i++ {
		var msg string
		synctest.Test(t, func(t *testing.T) {
			e := newEnv(t)
			defer e.Teardown()
			lc, err := e.open(connSpec{Client: i%2 == 0})
			if err != nil {
				msg = err.Error()
				return
			}
			lc.Peer.start(e)
			nc := websocket.NetConn(context.Background(), lc.C, websocket.MessageBinary)
			nc.SetDeadline(time.Now().Add(time.Millisecond))
			e.sleep(time.Millisecond) // wakes at the instant the timers fire
			nc.SetDeadline(time.Time{})
			var werr error
			d := e.Call(func() { _, werr = nc.Write([]byte("after reset")) })
			if !within(d, 10*time.Second) || werr != nil {
				msg = fmt.Sprintf("iteration %d: Write after the deadline was reset failed: %v", i, werr)
				return
			}
			lc.Peer.send(ref.Frame{Fin: true, Opcode: ref.OpBinary, Payload: []byte("in")})
			var rerr error
			d = e.Call(func() { _, rerr = nc.Read(make([]byte, 8)) })
			if !within(d, 10*time.Second) || rerr != nil {
				msg = fmt.Sprintf("iteration %d: Read after the deadline was reset failed: %v", i, rerr)
			}
		})
		if msg != "" {
			failCase(t, "C18", map[string]any{"regress": "D16-stale-deadline-timer", "iteration": i}, "%s", msg)
		}
	}
	evid.For("C18").Case(true, "regress|D16", "regression-replay")
}

// TestC18ZeroRead: "for any ... read-buffer sizes" includes the empty one. io.Reader: a Read
// into an empty buffer returns 0 and no error (or the stream's standing error) - it does not
// consume, and above all it returns. Real clock, outside a bubble: the failure mode is a call
// that spins without ever blocking (defect D24), which would freeze a bubble's fake clock.
func TestC18ZeroRead(t *testing.T) {
	rec := evid.For("C18")
	for _, client := range []bool{false, true} {
		for _, when := range []string{"before-any-message", "mid-message", "between-messages", "after-eof", "deadline-expired"} {
			for _, nilBuf := range []bool{true, false} {
				desc := fmt.Sprintf("zeroread|client=%v|%s|nil=%v", client, when, nilBuf)
				msg := func() string {
					e := newEnv(t)
					defer e.Teardown()
					lc, err := e.open(connSpec{Client: client})
					if err != nil {
						return "handshake: " + err.Error()
					}
					p := lc.Peer
					p.onFrame = func(f ref.Frame) {
						if f.Opcode == ref.OpClose {
							p.send(ref.Frame{Fin: true, Opcode: ref.OpClose, Payload: f.Payload})
						}
					}
					p.start(e)
					nc := websocket.NetConn(context.Background(), lc.C, websocket.MessageBinary)
					defer lc.C.CloseNow()
					readN := func(n int) error {
						b := make([]byte, n)
						_, err := io.ReadFull(nc, b)
						return err
					}
					wantErr := ""
					switch when {
					case "mid-message":
						p.send(ref.Frame{Fin: true, Opcode: ref.OpBinary, Payload: []byte("hello")})
						if err := readN(1); err != nil {
							return "setup read: " + err.Error()
						}
					case "between-messages":
						p.send(ref.Frame{Fin: true, Opcode: ref.OpBinary, Payload: []byte("hello")})
						if err := readN(5); err != nil {
							return "setup read: " + err.Error()
						}
					case "after-eof":
						p.send(ref.Frame{Fin: true, Opcode: ref.OpClose, Payload: ref.ClosePayload(1000, "")})
						if _, err := nc.Read(make([]byte, 8)); err != io.EOF {
							return fmt.Sprintf("setup: Read after the peer's close returned %v", err)
						}
						wantErr = "EOF"
					case "deadline-expired":
						p.send(ref.Frame{Fin: true, Opcode: ref.OpBinary, Payload: []byte("hello")})
						if err := readN(1); err != nil {
							return "setup read: " + err.Error()
						}
						nc.SetReadDeadline(time.Now().Add(-time.Second))
						time.Sleep(20 * time.Millisecond)
						wantErr = "deadline"
					}
					var buf []byte
					if !nilBuf {
						buf = make([]byte, 16)[:0]
					}
					type res struct {
						n   int
						err error
					}
					ch := make(chan res, 1)
					go func() {
						n, err := nc.Read(buf)
						ch <- res{n, err}
					}()
					select {
					case r := <-ch:
						if r.n != 0 {
							return fmt.Sprintf("Read into an empty buffer returned n=%d", r.n)
						}
						switch wantErr {
						case "":
							if r.err != nil {
								return fmt.Sprintf("Read into an empty buffer (%s) returned %v, want 0, nil", when, r.err)
							}
						case "EOF":
							if r.err != io.EOF && r.err != nil {
								return fmt.Sprintf("Read into an empty buffer after EOF returned %v", r.err)
							}
						case "deadline":
							if r.err != nil && !isDeadlineErr(r.err) {
								return fmt.Sprintf("Read into an empty buffer after the deadline returned %v", r.err)
							}
						}
					case <-time.After(20 * time.Second): // (real time: generous, the machine may be busy)
						lc.C.CloseNow() // lets the spinning call end
						return fmt.Sprintf("Read into an empty buffer (%s) did not return within 20 s", when)
					}
					// and it consumed nothing: the rest of the stream is still there
					if when == "mid-message" {
						b := make([]byte, 4)
						if _, err := io.ReadFull(nc, b); err != nil || string(b) != "ello" {
							return fmt.Sprintf("after the empty Read the rest of the message reads as %q, %v (want \"ello\")", b, err)
						}
					}
					return ""
				}()
				rec.Case(true, desc, "read-into-an-empty-buffer")
				if msg != "" {
					failCase(t, "C18", desc, "%s", msg)
				}
			}
		}
	}
}
