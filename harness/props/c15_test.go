package props

import (
	"bytes"
	"context"
	"fmt"
	"runtime"
	"strconv"
	"sync"
	"testing"
	"testing/synctest"
	"time"

	"nhooyr.io/websocket"
	"pgregory.net/rapid"
	"verif/harness/evid"
	"verif/harness/ref"
)

// C15 — Ping waits for its own Pong; received Pings are answered with the same payload.

type c15Ping struct {
	Start    time.Duration // distinct per pinger
	Deadline time.Duration // relative to Start; 0 = none
	Reply    string        // echo | withhold | dup | foreign | other | early
	Delay    time.Duration
}

type c15Case struct {
	Mode      c03Mode
	Pings     []c15Ping
	Reader    string        // reader | closeread
	CloseAt   time.Duration // 0 = never
	Unsolicit int           // unsolicited pongs sprinkled in
}

func genC15(rt *rapid.T) c15Case {
	var c c15Case
	c.Mode = rapid.SampledFrom(c16Modes).Draw(rt, "mode")
	c.Reader = rapid.SampledFrom([]string{"reader", "closeread"}).Draw(rt, "reader")
	n := rapid.IntRange(1, 6).Draw(rt, "nPings")
	starts := map[time.Duration]bool{}
	for i := 0; i < n; i++ {
		var p c15Ping
		for {
			p.Start = time.Duration(rapid.IntRange(0, 40).Draw(rt, "startSlot")) * 50 * time.Millisecond
			if !starts[p.Start] {
				starts[p.Start] = true
				break
			}
			p.Start += time.Duration(len(starts)) * 7 * time.Millisecond
			if !starts[p.Start] {
				starts[p.Start] = true
				break
			}
		}
		p.Deadline = rapid.SampledFrom([]time.Duration{0, 500 * time.Millisecond, 3 * time.Second, 10 * time.Second}).Draw(rt, "deadline")
		p.Reply = rapid.SampledFrom([]string{"echo", "echo", "echo", "withhold", "dup", "foreign", "other", "early", "heartbeat"}).Draw(rt, "reply")
		p.Delay = rapid.SampledFrom([]time.Duration{0, time.Millisecond, 200 * time.Millisecond, time.Second, 4 * time.Second}).Draw(rt, "delay")
		c.Pings = append(c.Pings, p)
	}
	if rapid.IntRange(0, 3).Draw(rt, "closes") == 0 {
		c.CloseAt = time.Duration(rapid.IntRange(1, 60).Draw(rt, "closeAt")) * 100 * time.Millisecond
	}
	c.Unsolicit = rapid.IntRange(0, 3).Draw(rt, "unsolicited")
	return c
}

type c15Result struct {
	NonTrivial bool
}

func runC15(t fataler, c c15Case) (string, c15Result) {
	var res c15Result
	e := newEnv(t)
	defer e.Teardown()
	lc, err := e.open(connSpec{Client: c.Mode.Client, Mode: c.Mode.Mode, Ext: c.Mode.Ext})
	if err != nil {
		return "handshake: " + err.Error(), res
	}
	conn := lc.C
	p := lc.Peer
	base := context.Background()
	t0 := time.Now()

	// deliveries of Pong frames to the library, and Ping frames seen, with virtual times
	var mu sync.Mutex
	type ev = c15Ev
	var pongsSent, pingsSeen []ev
	sendPong := func(pl []byte) {
		mu.Lock()
		pongsSent = append(pongsSent, ev{append([]byte(nil), pl...), time.Now()})
		mu.Unlock()
		p.send(ref.Frame{Fin: true, Opcode: ref.OpPong, Payload: pl})
	}
	// peer policy: the k-th Ping frame to arrive belongs to the pinger with the k-th smallest start
	order := make([]int, len(c.Pings))
	for i := range order {
		order[i] = i
	}
	for i := 1; i < len(order); i++ {
		for j := i; j > 0 && c.Pings[order[j]].Start < c.Pings[order[j-1]].Start; j-- {
			order[j], order[j-1] = order[j-1], order[j]
		}
	}
	framePayload := make([][]byte, len(c.Pings)) // by pinger index
	arrived := 0
	p.onFrame = func(f ref.Frame) {
		if f.Opcode != ref.OpPing {
			return
		}
		mu.Lock()
		pingsSeen = append(pingsSeen, ev{f.Payload, time.Now()})
		k := arrived
		arrived++
		mu.Unlock()
		if k >= len(order) {
			return
		}
		idx := order[k]
		pg := c.Pings[idx]
		mu.Lock()
		framePayload[idx] = f.Payload
		mu.Unlock()
		pl := f.Payload
		reply := func() {
			switch pg.Reply {
			case "echo", "early":
				sendPong(pl)
			case "dup":
				sendPong(pl)
				sendPong(pl)
			case "foreign":
				sendPong(append(append([]byte(nil), pl...), 'x'))
				sendPong([]byte("no such ping"))
			case "other":
				// the payload of the next pinger's (future) frame, guessed; never this one's
				sendPong([]byte(fmt.Sprint(len(pl) + 1000)))
			case "heartbeat":
				// the peer does not answer; what arrives is its unidirectional heartbeat (RFC 6455 section 5.5.3): a Pong
				// without application data - the one unsolicited Pong real peers send
				sendPong(nil)
			case "withhold":
			}
		}
		if pg.Delay == 0 {
			reply()
		} else {
			e.Go(func() {
				if e.sleep(pg.Delay) {
					reply()
				}
			})
		}
	}
	p.start(e)

	// the reading side
	switch c.Reader {
	case "closeread":
		conn.CloseRead(base)
	default:
		e.Go(func() {
			for {
				if _, _, err := conn.Read(base); err != nil {
					return
				}
			}
		})
	}
	// early guesses: before any ping is sent, Pongs with decimal payloads 1..n (a guessing
	// heuristic only; the oracle does not depend on the payload format)
	for i, pg := range c.Pings {
		if pg.Reply == "early" {
			sendPong([]byte(fmt.Sprint(i + 1)))
		}
	}
	for i := 0; i < c.Unsolicit; i++ {
		sendPong([]byte(fmt.Sprintf("unsolicited-%d", i)))
	}

	type callRec struct {
		start, end time.Time
		err        error
		deadline   time.Time
	}
	calls := make([]callRec, len(c.Pings))
	var dones []<-chan struct{}
	for i, pg := range c.Pings {
		i, pg := i, pg
		dones = append(dones, e.Call(func() {
			// every call starts strictly after the pre-emptive Pongs (sent at +0)
			if !e.sleep(10*time.Millisecond + pg.Start) {
				return
			}
			ctx := base
			var cancel context.CancelFunc = func() {}
			calls[i].start = time.Now()
			if pg.Deadline > 0 {
				ctx, cancel = context.WithTimeout(base, pg.Deadline)
				calls[i].deadline = calls[i].start.Add(pg.Deadline)
			}
			calls[i].err = conn.Ping(ctx)
			calls[i].end = time.Now()
			cancel()
		}))
	}
	var closedAt time.Time
	if c.CloseAt > 0 {
		e.Go(func() {
			if e.sleep(c.CloseAt) {
				closedAt = time.Now()
				conn.CloseNow()
			}
		})
	}
	// everything has a bound: the longest deadline is 10 s, the longest reply delay 4 s
	for i, d := range dones {
		if c.Pings[i].Deadline == 0 && (c.Pings[i].Reply == "withhold" || c.Pings[i].Reply == "heartbeat" || c.Pings[i].Reply == "foreign" || c.Pings[i].Reply == "other") && c.CloseAt == 0 {
			continue // waits forever by contract; ended by teardown
		}
		if !within(d, 30*time.Second) {
			return fmt.Sprintf("Ping %d (%+v) did not return within 30 s", i, c.Pings[i]), res
		}
	}
	synctestSettle(e)
	mu.Lock()
	defer mu.Unlock()
	answeredOutOfOrder := 0
	for i, pg := range c.Pings {
		cr := calls[i]
		if cr.end.IsZero() {
			continue // still waiting (no deadline, no matching pong): allowed
		}
		fp := framePayload[i]
		// matching Pong deliveries inside [start, end]
		var firstMatch time.Time
		for _, pe := range pongsSent {
			if fp != nil && bytes.Equal(pe.payload, fp) && !pe.at.Before(cr.start) {
				if firstMatch.IsZero() || pe.at.Before(firstMatch) {
					firstMatch = pe.at
				}
			}
		}
		if cr.err == nil {
			if firstMatch.IsZero() || firstMatch.After(cr.end) {
				return fmt.Sprintf("Ping %d returned nil at +%v but no Pong with its payload %q was delivered during the call (started +%v); Pongs delivered: %v", i, cr.end.Sub(t0), fp, cr.start.Sub(t0), fmtEvs(pongsSent, t0)), res
			}
			if cr.end.Sub(firstMatch) > time.Second {
				return fmt.Sprintf("Ping %d returned %v after its Pong was delivered", i, cr.end.Sub(firstMatch)), res
			}
			if pg.Delay > 0 {
				answeredOutOfOrder++
			}
		} else {
			// an error: legitimate only at the deadline or once the connection closed
			byDeadline := !cr.deadline.IsZero() && !cr.end.Before(cr.deadline) && cr.end.Sub(cr.deadline) <= time.Second
			byClose := !closedAt.IsZero() && !cr.end.Before(closedAt) && cr.end.Sub(closedAt) <= time.Second
			startedClosed := !closedAt.IsZero() && !cr.start.Before(closedAt)
			if !byDeadline && !byClose && !startedClosed {
				return fmt.Sprintf("Ping %d failed with %v at +%v, which is neither its deadline (%v) nor the close of the connection (%v)", i, cr.err, cr.end.Sub(t0), cr.deadline.Sub(t0), closedAt.Sub(t0)), res
			}
			// its Pong had been delivered well before: it should have returned nil
			if !firstMatch.IsZero() && cr.end.Sub(firstMatch) > time.Second && (closedAt.IsZero() || firstMatch.Before(closedAt)) {
				return fmt.Sprintf("Ping %d failed (%v) although its own Pong had been delivered %v earlier", i, cr.err, cr.end.Sub(firstMatch)), res
			}
		}
	}
	if cl, _ := lc.Lib.Closed(); cl && c.CloseAt == 0 {
		return "the connection was closed although nobody closed it (unsolicited or unmatched Pongs must be ignored)", res
	}
	res.NonTrivial = len(c.Pings) >= 2 && answeredOutOfOrder >= 1
	if ps := e.Panics(); len(ps) > 0 {
		return "library panicked: " + ps[0], res
	}
	return "", res
}

func synctestSettle(e *env) { e.sleep(time.Millisecond) }

type c15Ev struct {
	payload []byte
	at      time.Time
}

func fmtEvs(evs []c15Ev, t0 time.Time) string {
	s := ""
	for _, x := range evs {
		s += fmt.Sprintf("%q@+%v ", x.payload, x.at.Sub(t0))
	}
	return s
}

func TestC15(t *testing.T) {
	rec := evid.For("C15")
	rec.Rule = "outbound: rapid draws 1-6 concurrent Ping calls (distinct virtual start instants, individual deadlines none/0.5/3/10 s) against a scripted peer that answers each Ping frame by: echo after a delay (so Pongs return out of order), withholding, duplicating, a foreign payload, another plausible payload, or a pre-emptive Pong sent before the call started; plus unsolicited Pongs and an optional CloseNow meanwhile; reader = explicit Read loop or CloseRead; virtual time. inbound: Ping frames with every payload length 0..125 placed before, between and inside fragmented (compressed) messages, and Ping-only streams under CloseRead. Non-trivial: >=2 concurrent pings of which one is answered after a delay, or a Ping inside a fragmented message. distinct = hash(mode, reader, per-ping (reply, delay, deadline), close)."
	checkProp(t, func(rt *rapid.T) {
		c := genC15(rt)
		var msg string
		var res c15Result
		rapid.SyncTest(rt, func(rt *rapid.T) { msg, res = runC15(rt, c) })
		shape := c.Mode.Name + "|" + c.Reader + fmt.Sprint(c.CloseAt > 0)
		classes := []string{"reader:" + c.Reader}
		for _, pg := range c.Pings {
			shape += fmt.Sprintf("|%s/%v/%v", pg.Reply, pg.Delay, pg.Deadline)
			classes = append(classes, "reply:"+pg.Reply)
		}
		if c.CloseAt > 0 {
			classes = append(classes, "closed-meanwhile")
		}
		rec.Case(res.NonTrivial, shape, classes...)
		if rec.WantSample() {
			rec.Sample(fmt.Sprintf("%+v", c))
		}
		if msg != "" {
			rt.Fatalf("C15 %+v: %s", c, msg)
		}
	})
}

// TestC15Inbound: received Pings are answered with identical payloads, in order.
func TestC15Inbound(t *testing.T) {
	rec := evid.For("C15")
	caseNo := 0
	checkProp(t, func(rt *rapid.T) {
		caseNo++
		mode := rapid.SampledFrom(c03Modes).Draw(rt, "mode")
		deflate := mode.Mode != websocket.CompressionDisabled
		takeover := deflate && (mode.Name == "server/takeover" || mode.Name == "client/takeover" || mode.Name == "client/takeover-client_no_ctx-resp")
		closeRead := rapid.IntRange(0, 3).Draw(rt, "closeRead") == 0
		// a slow producer: the application has a message open, has written a few bytes of it and
		// then produces nothing more while the Pings arrive
		slowProducer := rapid.IntRange(0, 2).Draw(rt, "slowProducer") == 0
		// what the idle writer has written so far: a few bytes (all of it still in the write buffer) or a
		// chunk around / beyond the size of that buffer (its head is on the wire, its tail is not)
		slowFirst := 7
		if slowProducer {
			slowFirst = rapid.SampledFrom([]int{7, 7, 100, 4081, 4089, 4092, 4096, 4097, 5000, 8192, 9000, 20000}).Draw(rt, "slowProducerFirstWrite")
		}
		var frames []ref.Frame
		var msgs []inMsg
		pingLen := func(k int) int { return (caseNo*7 + k*13) % 126 }
		nPing := 0
		mkPing := func() ref.Frame {
			n := pingLen(nPing)
			nPing++
			return ref.Frame{Fin: true, Opcode: ref.OpPing, Payload: expand(ckRandom, uint64(caseNo*131+nPing), n)}
		}
		inside := false
		if closeRead {
			k := rapid.IntRange(1, 8).Draw(rt, "nPings")
			for i := 0; i < k; i++ {
				if rapid.IntRange(0, 3).Draw(rt, "pongToo") == 0 {
					frames = append(frames, ref.Frame{Fin: true, Opcode: ref.OpPong, Payload: []byte("stray")})
				}
				frames = append(frames, mkPing())
			}
		} else {
			var base []ref.Frame
			msgs, base = genInStream(rt, inStreamOpts{Deflate: deflate, Takeover: takeover, MaxMsgs: 3, MaxLen: 3000, MaxFrags: 4, AllowBFin: true})
			// place pings at drawn positions, including between fragments
			for i, f := range base {
				for rapid.IntRange(0, 2).Draw(rt, "pingHere") == 0 {
					frames = append(frames, mkPing())
					if openMsgAt(base, i) {
						inside = true
					}
				}
				frames = append(frames, f)
			}
			if rapid.Bool().Draw(rt, "pingAtEnd") {
				frames = append(frames, mkPing())
			}
		}
		frames, stream, _ := finishMasking(frames, mode.Client)
		// servers: a client that does not wait for the 101 - the first bytes of what it sends (a Ping, in
		// the closeRead cases and often otherwise) arrive in the segment of the handshake request
		early := 0
		if !mode.Client && len(stream) > 0 && rapid.IntRange(0, 2).Draw(rt, "earlyData") == 0 {
			early = min(len(stream), rapid.SampledFrom([]int{1, 2, 7, 40, 1 << 20}).Draw(rt, "earlyBytes"))
		}
		var fail string
		rapid.SyncTest(rt, func(rt *rapid.T) {
			e := newEnv(rt)
			defer e.Teardown()
			// (servers: the hijacked bufio.Reader may be smaller than a control frame's payload)
			lc, err := e.open(connSpec{Client: mode.Client, Mode: mode.Mode, Ext: mode.Ext, ReaderSize: []int{0, 0, 16, 64, 127}[caseNo%5], Pipelined: stream[:early]})
			if err != nil {
				fail = "handshake: " + err.Error()
				return
			}
			lc.Peer.start(e)
			var tr readTrace
			var crCtx context.Context
			if closeRead {
				crCtx = lc.C.CloseRead(context.Background())
			}
			// meanwhile the library is sending streamed (compressed) messages of its own:
			// its Pongs go out between the frames of those messages
			var wrote [][]byte
			wdone := e.Call(func() {
				if slowProducer {
					if w, err := lc.C.Writer(context.Background(), websocket.MessageText); err == nil {
						w.Write(expand(ckText, uint64(caseNo), slowFirst))
					}
					return
				}
				for k := 0; k < 3; k++ {
					m := expand(ckText, uint64(caseNo*17+k), 3000)
					w, err := lc.C.Writer(context.Background(), websocket.MessageText)
					if err != nil {
						return
					}
					for off := 0; off < len(m); off += 1000 {
						if _, err := w.Write(m[off : off+1000]); err != nil {
							return
						}
						for y := 0; y < 50; y++ {
							runtime.Gosched()
						}
					}
					if w.Close() != nil {
						return
					}
					wrote = append(wrote, m)
				}
			})
			lc.End.Write(stream[early:])
			if closeRead {
				e.sleep(2 * time.Second)
				lc.End.CloseWrite(nil)
				if !within(crCtx.Done(), 30*time.Second) {
					fail = "CloseRead context not done after the transport ended"
					return
				}
			} else {
				lc.End.CloseWrite(nil)
				lc.C.SetReadLimit(1 << 20)
				d := e.Call(func() { tr = readAllMsgs(lc.C, func() int { return 4096 }, len(frames)+2) })
				if !within(d, 120*time.Second) {
					fail = "read loop did not terminate"
					return
				}
			}
			within(wdone, 60*time.Second)
			lc.C.CloseNow()
			lc.Peer.waitEOF(30 * time.Second)
			out, _ := lc.Peer.snapshot()
			if rep, verr := ref.ValidateStream(lc.End.InRecording(), ref.StreamOpts{FromClient: mode.Client, Deflate: lc.Agreed.Deflate, Takeover: lc.Agreed.SenderTakeover(mode.Client)}, true); verr != nil {
				fail = "what the library sent while answering Pings is not a well-formed stream: " + verr.Error()
				return
			} else if len(rep.Messages) < len(wrote) {
				fail = fmt.Sprintf("%d of the %d messages written beside the Pings are on the wire", len(rep.Messages), len(wrote))
				return
			}
			var want, got [][]byte
			for _, f := range frames {
				if f.Opcode == ref.OpPing {
					want = append(want, f.Payload)
				}
			}
			for _, f := range out {
				if f.Opcode == ref.OpPong {
					got = append(got, f.Payload)
				}
			}
			if len(got) != len(want) {
				fail = fmt.Sprintf("%d Pongs sent for %d Pings received", len(got), len(want))
				return
			}
			for i := range want {
				if !bytes.Equal(got[i], want[i]) {
					fail = fmt.Sprintf("Pong %d payload (%d bytes) differs from Ping payload (%d bytes)", i, len(got[i]), len(want[i]))
					return
				}
			}
			if !closeRead {
				n := 0
				for _, m := range tr.Msgs {
					if m.EOF {
						if n >= len(msgs) || !bytes.Equal(m.Data, msgs[n].payload) {
							fail = fmt.Sprintf("message %d around the Pings was not delivered intact", n)
							return
						}
						n++
					}
				}
				if n != len(msgs) {
					fail = fmt.Sprintf("%d of %d messages delivered", n, len(msgs))
				}
			}
		})
		lens := ""
		for _, f := range frames {
			if f.Opcode == ref.OpPing {
				lens += fmt.Sprintf("%d,", len(f.Payload))
				rec.Class(fmt.Sprintf("ping-len-seen:%03d", len(f.Payload)), 1)
			}
		}
		rec.Case(inside || closeRead, fmt.Sprintf("in|%s|%v|%v|%s|%d", mode.Name, closeRead, slowProducer, lens, len(frames)), "inbound", fmt.Sprintf("inbound-closeread:%v", closeRead), fmt.Sprintf("inbound-application-writer-idle-with-a-message-open:%v", slowProducer), map[bool]string{true: "inbound-first-bytes-in-the-segment-of-the-handshake-request"}[early > 0], map[bool]string{true: "inbound-idle-writer-wrote-more-than-the-write-buffer-holds"}[slowProducer && slowFirst > 4096])
		if fail != "" {
			rt.Fatalf("C15 inbound mode=%s closeRead=%v slowProducer=%v/%d: %s", mode.Name, closeRead, slowProducer, slowFirst, fail)
		}
	})
}

// TestC15Stall: a data write of the library's own is held up by the transport while a
// Ping arrives. If the hold-up is shorter than the library's control-frame timeout the
// Pong goes out late; if it is longer the connection fails. What may not happen is that
// the Ping is dropped silently while later Pings are answered: the Pongs on the wire are
// always the answers to the first k Pings, in order.
func TestC15Stall(t *testing.T) {
	rec := evid.For("C15")
	for _, client := range []bool{false, true} {
		for _, closeRead := range []bool{false, true} {
			for _, stall := range []time.Duration{3 * time.Second, 7 * time.Second, 20 * time.Second} {
				desc := fmt.Sprintf("stall|client=%v|closeRead=%v|%v", client, closeRead, stall)
				var msg string
				synctest.Test(t, func(t *testing.T) {
					e := newEnv(t)
					defer e.Teardown()
					lc, err := e.open(connSpec{Client: client})
					if err != nil {
						msg = "handshake: " + err.Error()
						return
					}
					p := lc.Peer
					p.start(e)
					lc.End.SetInBudget(0)
					e.Go(func() { lc.C.Write(context.Background(), websocket.MessageBinary, make([]byte, 9000)) })
					synctest.Wait() // the write holds the frame lock, stuck in the transport
					if closeRead {
						lc.C.CloseRead(context.Background())
					} else {
						e.Go(func() {
							for {
								if _, _, err := lc.C.Read(context.Background()); err != nil {
									return
								}
							}
						})
					}
					pings := [][]byte{[]byte("ping A"), []byte("ping B"), []byte("ping C")}
					p.send(ref.Frame{Fin: true, Opcode: ref.OpPing, Payload: pings[0]})
					e.sleep(stall)
					lc.End.SetInBudget(-1)
					p.send(ref.Frame{Fin: true, Opcode: ref.OpPing, Payload: pings[1]})
					e.sleep(time.Second)
					p.send(ref.Frame{Fin: true, Opcode: ref.OpPing, Payload: pings[2]})
					e.sleep(8 * time.Second)
					lc.C.CloseNow()
					p.waitEOF(30 * time.Second)
					out, _ := p.snapshot()
					var got [][]byte
					for _, f := range out {
						if f.Opcode == ref.OpPong {
							got = append(got, f.Payload)
						}
					}
					for i, g := range got {
						if i >= len(pings) || !bytes.Equal(g, pings[i]) {
							msg = fmt.Sprintf("Pong %d on the wire is %q: the Pongs are not the answers to the first Pings in order (all Pongs: %q) - a Ping was dropped silently", i, g, got)
							return
						}
					}
					if stall < 5*time.Second && len(got) != len(pings) {
						msg = fmt.Sprintf("the write was held up for %v only, but %d of %d Pings were answered: %q", stall, len(got), len(pings), got)
					}
				})
				rec.Case(true, desc, "ping-while-a-write-is-held-up")
				if msg != "" {
					failCase(t, "C15", desc, "%s", msg)
				}
			}
		}
	}
	// A Ping whose own frame cannot leave (zero window) while its context runs out, and a peer that
	// meanwhile sends Pongs carrying that Ping's payload (payloads are a counter: a peer can guess
	// them) - once, twice, three times: the call returns an error when its context ends, the reader
	// stays alive (it answers a Ping of the peer afterwards), a later Ping works, CloseNow returns.
	for _, client := range []bool{false, true} {
		for _, early := range []int{1, 2, 3} {
			for _, closeRead := range []bool{false, true} {
				desc := fmt.Sprintf("stuck-ping|client=%v|earlyPongs=%d|closeRead=%v", client, early, closeRead)
				var msg string
				synctest.Test(t, func(t *testing.T) {
					e := newEnv(t)
					defer e.Teardown()
					lc, err := e.open(connSpec{Client: client})
					if err != nil {
						msg = "handshake: " + err.Error()
						return
					}
					p := lc.Peer
					answer := false
					var amu sync.Mutex
					p.onFrame = func(f ref.Frame) {
						amu.Lock()
						a := answer
						amu.Unlock()
						if f.Opcode == ref.OpPing && a {
							p.send(ref.Frame{Fin: true, Opcode: ref.OpPong, Payload: f.Payload})
						}
					}
					p.start(e)
					if closeRead {
						lc.C.CloseRead(context.Background())
					} else {
						e.Go(func() {
							for {
								if _, _, err := lc.C.Read(context.Background()); err != nil {
									return
								}
							}
						})
					}
					// learn the payload scheme from a first, ordinary Ping
					amu.Lock()
					answer = true
					amu.Unlock()
					if err := lc.C.Ping(context.Background()); err != nil {
						msg = "first Ping failed: " + err.Error()
						return
					}
					amu.Lock()
					answer = false
					amu.Unlock()
					fr, _ := p.snapshot()
					var first []byte
					for _, f := range fr {
						if f.Opcode == ref.OpPing {
							first = f.Payload
						}
					}
					n, perr := strconv.Atoi(string(first))
					if perr != nil {
						return // payloads are not a counter on this tree: nothing to guess
					}
					guess := []byte(strconv.Itoa(n + 1))
					lc.End.SetInBudget(0)
					pctx, cancel := context.WithTimeout(context.Background(), 2*time.Second)
					defer cancel()
					var pingErr error
					d := e.Call(func() { pingErr = lc.C.Ping(pctx) })
					synctest.Wait() // the Ping's frame is stuck in the transport
					for i := 0; i < early; i++ {
						p.send(ref.Frame{Fin: true, Opcode: ref.OpPong, Payload: guess})
					}
					if !within(d, 12*time.Second) {
						msg = fmt.Sprintf("Ping did not return within 12 s although its context ended after 2 s (its frame was stuck in the transport and %d Pongs with its payload %q had arrived early)", early, guess)
						lc.End.SetInBudget(-1)
						return
					}
					if pingErr == nil && early == 0 {
						msg = "Ping returned nil although its frame never left"
						return
					}
					lc.End.SetInBudget(-1)
					// an expired context closes the connection (documented); if the call returned nil instead
					// (the early Pong matched), the connection lives on and everything must still work
					if pingErr == nil {
						amu.Lock()
						answer = true
						amu.Unlock()
						if err := lc.C.Ping(context.Background()); err != nil {
							msg = "a later Ping failed: " + err.Error()
							return
						}
					}
					cd := e.Call(func() { lc.C.CloseNow() })
					if !within(cd, 10*time.Second) {
						msg = fmt.Sprintf("CloseNow did not return within 10 s after a Ping whose frame was stuck while %d Pongs with its payload arrived", early)
					}
				})
				rec.Case(true, desc, "ping-stuck-in-transport-with-early-pongs-and-a-deadline")
				if msg != "" {
					failCase(t, "C15", desc, "%s", msg)
				}
			}
		}
	}
	// k Ping calls queue up behind a Write that is held up in the transport (they all wait for
	// the frame lock at the same time); the window opens; the peer answers every Ping frame with
	// its payload, in order or in reverse. Each call is matched to its own Pong: all return nil,
	// and the k frames carry k different payloads.
	for _, client := range []bool{false, true} {
		for _, k := range []int{2, 3, 5} {
			for _, reverse := range []bool{false, true} {
				desc := fmt.Sprintf("queued|client=%v|k=%d|reverse=%v", client, k, reverse)
				var msg string
				synctest.Test(t, func(t *testing.T) {
					e := newEnv(t)
					defer e.Teardown()
					lc, err := e.open(connSpec{Client: client})
					if err != nil {
						msg = "handshake: " + err.Error()
						return
					}
					p := lc.Peer
					var mu sync.Mutex
					var seen [][]byte
					p.onFrame = func(f ref.Frame) {
						if f.Opcode != ref.OpPing {
							return
						}
						mu.Lock()
						seen = append(seen, append([]byte(nil), f.Payload...))
						all := len(seen) == k
						batch := append([][]byte(nil), seen...)
						mu.Unlock()
						if !all {
							return
						}
						if reverse {
							for i, j := 0, len(batch)-1; i < j; i, j = i+1, j-1 {
								batch[i], batch[j] = batch[j], batch[i]
							}
						}
						for _, pl := range batch {
							p.send(ref.Frame{Fin: true, Opcode: ref.OpPong, Payload: pl})
						}
					}
					p.start(e)
					e.Go(func() {
						for {
							if _, _, err := lc.C.Read(context.Background()); err != nil {
								return
							}
						}
					})
					lc.End.SetInBudget(0)
					e.Go(func() { lc.C.Write(context.Background(), websocket.MessageBinary, make([]byte, 9000)) })
					synctest.Wait()
					errs := make([]error, k)
					var dones []<-chan struct{}
					for i := 0; i < k; i++ {
						i := i
						dones = append(dones, e.Call(func() { errs[i] = lc.C.Ping(context.Background()) }))
						synctest.Wait()
					}
					e.sleep(300 * time.Millisecond)
					lc.End.SetInBudget(-1)
					for i, d := range dones {
						if !within(d, 30*time.Second) {
							mu.Lock()
							msg = fmt.Sprintf("Ping call %d of %d that queued behind a held-up Write did not return within 30 s although every Ping frame was answered with its payload (Ping frames seen: %q)", i, k, seen)
							mu.Unlock()
							return
						}
						if errs[i] != nil {
							msg = fmt.Sprintf("Ping call %d of %d failed: %v", i, k, errs[i])
							return
						}
					}
					mu.Lock()
					defer mu.Unlock()
					for i := range seen {
						for j := 0; j < i; j++ {
							if bytes.Equal(seen[i], seen[j]) {
								msg = fmt.Sprintf("two of the %d concurrent Pings carry the same payload %q", k, seen[i])
							}
						}
					}
				})
				rec.Case(true, desc, "pings-queued-behind-a-held-up-write")
				if msg != "" {
					failCase(t, "C15", desc, "%s", msg)
				}
			}
		}
	}
}
