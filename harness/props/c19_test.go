package props

import (
	"bytes"
	"context"
	"encoding/json"
	"errors"
	"fmt"
	"math"
	"reflect"
	"strings"
	"sync"
	"testing"
	"time"

	"nhooyr.io/websocket"
	"nhooyr.io/websocket/wsjson"
	"pgregory.net/rapid"
	"verif/harness/evid"
	"verif/harness/ref"
)

// C19 — wsjson moves one JSON value per text message and rejects invalid JSON.

type c19Struct struct {
	A int               `json:"a"`
	B string            `json:"b"`
	C []float64         `json:"c"`
	D *struct{ E bool } `json:"d"`
	F json.RawMessage   `json:"f"`
	G map[string]any    `json:"g"`
}

var c19Strings = []string{"", "a", "héllo wörld", "日本語", "\u0000\u001f", "quote\"back\\slash", "emoji 😀", "line\nbreak\ttab", "</script>&<>", "  "}

// genJSON draws a JSON value (as Go data) of bounded depth.
func genJSON(rt *rapid.T, depth int) any {
	k := rapid.IntRange(0, 9).Draw(rt, "jsonKind")
	if depth <= 0 && k >= 6 {
		k = k % 6
	}
	switch k {
	case 0:
		return nil
	case 1:
		return rapid.Bool().Draw(rt, "b")
	case 2:
		return float64(rapid.IntRange(-1000000, 1000000).Draw(rt, "int"))
	case 3:
		return rapid.Float64Range(-1e12, 1e12).Draw(rt, "float")
	case 4:
		return rapid.SampledFrom(c19Strings).Draw(rt, "str")
	case 5:
		n := rapid.SampledFrom([]int{0, 1, 10, 200, 5000, 40000}).Draw(rt, "strLen")
		return strings.Repeat(rapid.SampledFrom([]string{"x", "é", "ab\"", "😀"}).Draw(rt, "unit"), n)
	case 6, 7:
		n := rapid.IntRange(0, 4).Draw(rt, "arrLen")
		a := make([]any, n)
		for i := range a {
			a[i] = genJSON(rt, depth-1)
		}
		return a
	default:
		n := rapid.IntRange(0, 4).Draw(rt, "objLen")
		m := map[string]any{}
		for i := 0; i < n; i++ {
			key := rapid.SampledFrom([]string{"a", "b", "c", "d", "f", "g", "k1", "ключ", ""}).Draw(rt, "key")
			m[key] = genJSON(rt, depth-1)
		}
		return m
	}
}

func jsonDepth(v any) int {
	switch x := v.(type) {
	case []any:
		d := 0
		for _, e := range x {
			if k := jsonDepth(e); k > d {
				d = k
			}
		}
		return d + 1
	case map[string]any:
		d := 0
		for _, e := range x {
			if k := jsonDepth(e); k > d {
				d = k
			}
		}
		return d + 1
	}
	return 0
}

type c19Read struct {
	Conn   int
	Doc    []byte
	Target string // any | struct | raw | bytes | string | map | slice
	Binary bool
	Mangle string // "" | truncate | trailing | two-values | garbage
	depth  int
	// Shape: how the peer frames the document: one frame | two fragments | the whole
	// document in a non-final frame followed by an empty final frame (what a peer
	// streaming through a message writer sends).
	Shape string
	// OwnCtx: wsjson.Read gets a context of its own that is cancelled as soon as the call has returned.
	OwnCtx bool
	// Compress: the peer compresses this document (when permessage-deflate was agreed; with context
	// takeover its compressor keeps the history of the documents it compressed - and only of those).
	Compress bool
	// transport-cut: depth = bytes of the document that still arrive, CutFirst of them in the first (non-final) frame
	CutFirst int
}

func newTarget(kind string) any {
	switch kind {
	case "struct":
		return &c19Struct{}
	case "raw":
		return &json.RawMessage{}
	case "bytes":
		return &[]byte{}
	case "string":
		s := ""
		return &s
	case "map":
		return &map[string]any{}
	case "slice":
		return &[]any{}
	}
	var v any
	return &v
}

func genC19Read(rt *rapid.T, nConns int) c19Read {
	var r c19Read
	r.Conn = rapid.IntRange(0, nConns-1).Draw(rt, "conn")
	r.Target = rapid.SampledFrom([]string{"any", "any", "struct", "raw", "bytes", "string", "map", "slice"}).Draw(rt, "target")
	var v any
	switch r.Target {
	case "struct":
		v = map[string]any{"a": float64(rapid.IntRange(-5, 5).Draw(rt, "a")), "b": rapid.SampledFrom(c19Strings).Draw(rt, "sb"),
			"c": []any{1.5, 2.0}, "d": map[string]any{"E": true}, "f": genJSON(rt, 2), "g": genJSON(rt, 2)}
		if rapid.IntRange(0, 4).Draw(rt, "wrongShape") == 0 {
			v = genJSON(rt, 3)
		}
	case "bytes":
		v = rapid.SliceOfN(rapid.Byte(), 0, 300).Draw(rt, "rawBytes") // marshals to base64
		if rapid.IntRange(0, 4).Draw(rt, "wrongShape") == 0 {
			v = genJSON(rt, 2)
		}
	case "string":
		v = rapid.SampledFrom(c19Strings).Draw(rt, "s")
		if rapid.IntRange(0, 4).Draw(rt, "wrongShape") == 0 {
			v = genJSON(rt, 2)
		}
	case "map":
		v = map[string]any{"x": genJSON(rt, 4), "y": genJSON(rt, 3)}
		if rapid.IntRange(0, 4).Draw(rt, "wrongShape") == 0 {
			v = genJSON(rt, 3)
		}
	case "slice":
		v = []any{genJSON(rt, 4), genJSON(rt, 3)}
		if rapid.IntRange(0, 4).Draw(rt, "wrongShape") == 0 {
			v = genJSON(rt, 3)
		}
	default:
		v = genJSON(rt, 6)
	}
	r.depth = jsonDepth(v)
	doc, err := json.Marshal(v)
	if err != nil {
		doc = []byte("null")
	}
	if rapid.IntRange(0, 3).Draw(rt, "indent") == 0 {
		var b bytes.Buffer
		if json.Indent(&b, doc, " ", "\t") == nil {
			doc = b.Bytes()
		}
	}
	r.Mangle = rapid.SampledFrom([]string{"", "", "", "", "truncate", "trailing", "two-values", "garbage", "overflow", "transport-cut"}).Draw(rt, "mangle")
	switch r.Mangle {
	case "truncate":
		if len(doc) > 1 {
			doc = doc[:rapid.IntRange(1, len(doc)-1).Draw(rt, "cutAt")]
		}
	case "trailing":
		doc = append(doc, []byte(" x")...)
	case "two-values":
		doc = append(doc, []byte(" 1")...)
	case "overflow":
		// valid JSON whose decoding error text is long (a number literal of 40-300 digits
		// that overflows a numeric field, reported with the field path)
		digits := strings.Repeat("9", rapid.SampledFrom([]int{40, 60, 100, 200, 300}).Draw(rt, "digits"))
		switch r.Target {
		case "struct":
			doc = []byte(`{"a":` + digits + `}`)
		case "map", "any":
			r.Target = "struct"
			doc = []byte(`{"b":"x","c":[1,` + digits + `e400]}`)
		default:
			r.Target = "struct"
			doc = []byte(`{"d":{"E":` + digits + `}}`)
		}
	case "transport-cut":
		// a number whose every prefix is valid JSON too; the transport ends inside its final frame
		doc = bytes.Repeat([]byte("1234567890"), rapid.SampledFrom([]int{1, 30, 300}).Draw(rt, "cutDocLen"))
		r.depth = rapid.IntRange(1, len(doc)-1).Draw(rt, "cutKeep") // bytes of the document that still arrive
		r.CutFirst = rapid.SampledFrom([]int{0, 1, r.depth / 2, r.depth - 1, r.depth, r.depth}).Draw(rt, "cutFirst")
	case "garbage":
		doc = []byte(rapid.SampledFrom([]string{"", "{", "nul", "[1,]", "{\"a\":}", "\xff\xfe", "'single'"}).Draw(rt, "garbageDoc"))
	}
	r.Doc = doc
	r.Binary = rapid.IntRange(0, 9).Draw(rt, "binary") == 0
	r.Shape = rapid.SampledFrom([]string{"one", "one", "two", "empty-fin"}).Draw(rt, "frameShape")
	r.OwnCtx = rapid.Bool().Draw(rt, "ownCtx")
	return r
}

type c19Case struct {
	Mode  c03Mode
	Conns int
	Reads []c19Read
	// LateLimit: the read limit of a connection is raised (from the default to 1 MiB) only while
	// its first wsjson.Read is already waiting for the message
	LateLimit bool
}

type c19Result struct {
	NonTrivial bool
	Rejected   int
}

// snapshot renders a decoded target so that later mutation is detectable.
func snapshot(target any) []byte {
	v := reflect.ValueOf(target).Elem().Interface()
	switch x := v.(type) {
	case json.RawMessage:
		return append([]byte("raw:"), x...)
	case []byte:
		return append([]byte("bytes:"), x...)
	}
	b, _ := json.Marshal(v)
	return b
}

func runC19Reads(t fataler, c c19Case, concurrent bool) (string, c19Result) {
	var res c19Result
	e := newEnv(t)
	defer e.Teardown()
	conns := make([]*libConn, c.Conns)
	defs := make([]*ref.Deflater, c.Conns)
	for i := range conns {
		lc, err := e.open(connSpec{Client: c.Mode.Client, Mode: c.Mode.Mode, Ext: c.Mode.Ext})
		if err != nil {
			return "handshake: " + err.Error(), res
		}
		if !c.LateLimit {
			lc.C.SetReadLimit(1 << 20)
		}
		lc.Peer.start(e)
		conns[i] = lc
		defs[i] = ref.NewDeflater(lc.Agreed.SenderTakeover(!c.Mode.Client))
	}
	ctx := context.Background()
	type kept struct {
		target any
		snap   []byte
		idx    int
	}
	var mu sync.Mutex
	var keep []kept
	dead := make([]bool, c.Conns)
	raised := make([]bool, c.Conns)
	var fail string
	setFail := func(s string) {
		mu.Lock()
		if fail == "" {
			fail = s
		}
		mu.Unlock()
	}
	doRead := func(i int, r c19Read) {
		lc := conns[r.Conn]
		mu.Lock()
		isDead := dead[r.Conn]
		mu.Unlock()
		if isDead {
			return
		}
		op := byte(ref.OpText)
		if r.Binary {
			op = ref.OpBinary
		}
		lateNow := false
		if c.LateLimit {
			mu.Lock()
			lateNow = !raised[r.Conn]
			raised[r.Conn] = true
			mu.Unlock()
		}
		if r.Mangle == "transport-cut" {
			if lateNow {
				lc.C.SetReadLimit(1 << 20)
			}
			keep := r.depth
			first := r.CutFirst // == keep: only the header of the final frame gets through
			if first > keep {
				first = keep
			}
			fr := []ref.Frame{{Opcode: ref.OpText, Payload: r.Doc[:first]}, {Fin: true, Opcode: ref.OpCont, Payload: r.Doc[first:]}}
			_, b, _ := finishMasking(fr, c.Mode.Client)
			lc.Peer.sendRaw(b[:len(b)-(len(r.Doc)-keep)])
			lc.End.CloseWrite(nil)
			var v any
			var err error
			d := e.Call(func() { err = wsjson.Read(ctx, lc.C, &v) })
			mu.Lock()
			dead[r.Conn] = true
			res.Rejected++
			mu.Unlock()
			if !within(d, 30*time.Second) {
				setFail(fmt.Sprintf("read %d did not return after the transport ended", i))
			} else if err == nil {
				setFail(fmt.Sprintf("read %d: the transport ended after %d of the %d bytes of the document, but wsjson.Read returned nil and decoded %v", i, keep, len(r.Doc), v))
			}
			return
		}
		raw, comp := r.Doc, false
		if r.Compress && lc.Agreed.Deflate {
			mu.Lock() // (one deflater per connection; concurrent mode runs one goroutine per connection)
			raw, comp = defs[r.Conn].Message(r.Doc, ref.DVSync), true
			mu.Unlock()
		}
		sendFrames := func() {
			switch r.Shape {
			case "two":
				lc.Peer.send(ref.Frame{Opcode: op, Rsv1: comp, Payload: raw[:len(raw)/2]})
				lc.Peer.send(ref.Frame{Fin: true, Opcode: ref.OpCont, Payload: raw[len(raw)/2:]})
			case "empty-fin":
				lc.Peer.send(ref.Frame{Opcode: op, Rsv1: comp, Payload: raw})
				lc.Peer.send(ref.Frame{Fin: true, Opcode: ref.OpCont})
			default:
				lc.Peer.send(ref.Frame{Fin: true, Opcode: op, Rsv1: comp, Payload: raw})
			}
		}
		if !lateNow {
			if (i+len(r.Doc))%3 == 1 && !concurrent {
				// a Ping of the peer in front of the document, its frame arriving in two pieces (the split inside the payload)
				b := lc.Peer.prep(ref.Frame{Fin: true, Opcode: ref.OpPing, Payload: []byte("ping between two documents")}).Encode()
				k := len(b) - 9
				lc.Peer.sendRaw(b[:k])
				e.sleep(time.Millisecond)
				lc.Peer.sendRaw(b[k:])
				evid.For("C19").Class("split-ping-in-front-of-a-document", 1)
			}
			sendFrames()
		}
		target := newTarget(r.Target)
		var err error
		rctx, rcancel := ctx, context.CancelFunc(func() {})
		if r.OwnCtx {
			rctx, rcancel = context.WithCancel(ctx)
		}
		d := e.Call(func() {
			err = wsjson.Read(rctx, lc.C, target)
			rcancel() // the idiomatic per-message context: cancelled once the call is over
		})
		if lateNow {
			e.sleep(time.Millisecond) // (virtual) the Read is waiting for the message now
			lc.C.SetReadLimit(1 << 20)
			sendFrames()
		}
		if !within(d, 30*time.Second) {
			setFail(fmt.Sprintf("read %d did not return", i))
			return
		}
		refTarget := newTarget(r.Target)
		refErr := json.Unmarshal(r.Doc, refTarget)
		if refErr != nil {
			mu.Lock()
			res.Rejected++
			dead[r.Conn] = true
			mu.Unlock()
			if err == nil {
				setFail(fmt.Sprintf("read %d: document %q is not valid JSON for target %s (%v) but wsjson.Read returned nil", i, trunc(r.Doc), r.Target, refErr))
				return
			}
			// the connection is closed with status 1007 - by the time wsjson.Read has returned: an
			// application that reacts to the error by dropping the connection at once (as the package's
			// examples do) must not be able to get in front of that Close frame
			if (i+len(r.Doc))%2 == 0 {
				dd := e.Call(func() { lc.C.CloseNow() })
				within(dd, 30*time.Second)
			}
			lc.Peer.waitOpcode(ref.OpClose, 10*time.Second)
			frames, _ := lc.Peer.snapshot()
			saw := false
			for _, f := range frames {
				if f.Opcode == ref.OpClose {
					if code, _, ok := ref.ParseClose(f.Payload); ok && code == 1007 {
						saw = true
					}
				}
			}
			if !saw {
				setFail(fmt.Sprintf("read %d: invalid JSON (%q for %s) but no Close frame with status 1007 was sent", i, trunc(r.Doc), r.Target))
			}
			return
		}
		if err != nil {
			if r.Binary {
				mu.Lock()
				dead[r.Conn] = true
				mu.Unlock()
				return // binary messages are outside the statement: either outcome
			}
			setFail(fmt.Sprintf("read %d: valid document %q for target %s was rejected: %v", i, trunc(r.Doc), r.Target, err))
			return
		}
		got, want := snapshot(target), snapshot(refTarget)
		if !bytes.Equal(got, want) {
			setFail(fmt.Sprintf("read %d: decoded value differs from encoding/json's (target %s): got %s want %s", i, r.Target, trunc(got), trunc(want)))
			return
		}
		mu.Lock()
		keep = append(keep, kept{target, got, i})
		mu.Unlock()
	}
	if !concurrent {
		for i, r := range c.Reads {
			doRead(i, r)
			if fail != "" {
				return fail, res
			}
		}
	} else {
		var dones []<-chan struct{}
		for ci := 0; ci < c.Conns; ci++ {
			ci := ci
			dones = append(dones, e.Call(func() {
				for i, r := range c.Reads {
					if r.Conn == ci {
						doRead(i, r)
					}
				}
			}))
		}
		for _, d := range dones {
			if !within(d, 120*time.Second) {
				return "concurrent reads did not finish", res
			}
		}
		if fail != "" {
			return fail, res
		}
	}
	// results of earlier reads are unchanged after later reads on any connection
	for _, k := range keep {
		if now := snapshot(k.target); !bytes.Equal(now, k.snap) {
			return fmt.Sprintf("the value returned by read %d changed after later reads (pooled buffer aliased): was %s now %s", k.idx, trunc(k.snap), trunc(now)), res
		}
	}
	for _, r := range c.Reads {
		if r.depth >= 2 || r.Target == "raw" || r.Target == "bytes" {
			res.NonTrivial = res.NonTrivial || len(c.Reads) >= 2
		}
	}
	if ps := e.Panics(); len(ps) > 0 {
		return "library panicked: " + ps[0], res
	}
	return "", res
}

func trunc(b []byte) string {
	if len(b) > 120 {
		return string(b[:120]) + "..."
	}
	return string(b)
}

var c19AsymModes = []c03Mode{
	{"server/ct+server_no_ctx-offer", false, websocket.CompressionContextTakeover, "permessage-deflate; server_no_context_takeover"},
	{"server/ct+client_no_ctx-offer", false, websocket.CompressionContextTakeover, "permessage-deflate; client_no_context_takeover"},
	{"client/ct+client_no_ctx-resp", true, websocket.CompressionContextTakeover, "permessage-deflate; client_no_context_takeover"},
	{"client/ct+server_no_ctx-resp", true, websocket.CompressionContextTakeover, "permessage-deflate; server_no_context_takeover"},
}

func genC19(rt *rapid.T) c19Case {
	var c c19Case
	// (role, compression) settings incl. agreements in which only one direction keeps its context
	c.Mode = rapid.SampledFrom(append(append([]c03Mode(nil), c16Modes...), c19AsymModes...)).Draw(rt, "mode")
	c.Conns = rapid.IntRange(1, 3).Draw(rt, "nConns")
	n := rapid.IntRange(2, 8).Draw(rt, "nReads")
	for i := 0; i < n; i++ {
		r := genC19Read(rt, c.Conns)
		r.Compress = rapid.IntRange(0, 2).Draw(rt, "compressDoc") != 0
		if i > 0 && rapid.IntRange(0, 2).Draw(rt, "repeatEarlierDoc") == 0 {
			// the same document again (on the same or another connection): a compressor that keeps
			// its window encodes it as references into what it sent before
			prev := c.Reads[rapid.IntRange(0, i-1).Draw(rt, "repeatOf")]
			if prev.Mangle == "" {
				r.Doc, r.Target, r.Mangle, r.depth, r.Binary = prev.Doc, prev.Target, prev.Mangle, prev.depth, prev.Binary
				r.Conn = prev.Conn
			}
		}
		c.Reads = append(c.Reads, r)
	}
	if rapid.IntRange(0, 3).Draw(rt, "lateLimit") == 0 {
		c.LateLimit = true
		if rapid.Bool().Draw(rt, "bigFirst") {
			// ... and the first message is larger than the default limit
			doc, _ := json.Marshal(strings.Repeat(rapid.SampledFrom([]string{"x", "é"}).Draw(rt, "bigUnit"), 40000))
			r0 := &c.Reads[0]
			r0.Doc, r0.Target, r0.Mangle, r0.depth, r0.Binary = doc, rapid.SampledFrom([]string{"any", "string", "raw"}).Draw(rt, "bigTarget"), "", 0, false
		}
	}
	if rapid.IntRange(0, 11).Draw(rt, "hugeDoc") == 0 {
		// a document of 0.5 - 1 MB (the read limit of these connections is 1 MiB) somewhere in the sequence: buffers
		// that have grown this far are what pools treat specially (cap them, replace them, shrink them)
		n := rapid.SampledFrom([]int{520000, 523776, 524288, 524300, 700000, 1000000}).Draw(rt, "hugeLen")
		doc, _ := json.Marshal(strings.Repeat("h", n))
		k := rapid.IntRange(0, len(c.Reads)-1).Draw(rt, "hugeAt")
		r := &c.Reads[k]
		r.Doc, r.Target, r.Mangle, r.depth, r.Binary, r.Compress = doc, rapid.SampledFrom([]string{"any", "string", "raw"}).Draw(rt, "hugeTarget"), "", 0, false, rapid.Bool().Draw(rt, "hugeCompressed")
	}
	return c
}

func TestC19(t *testing.T) {
	rec := evid.For("C19")
	rec.Rule = "reads: rapid draws 2-8 wsjson.Read calls over 1-3 connections (sharing the buffer pool), each with a document from a recursive JSON generator (depth <= 6, unicode/escapes, strings up to 160 KB with the read limit raised - in a quarter of the cases only while the connection's first Read is already waiting -, numbers, nulls), optionally indented, mangled (truncated, trailing garbage, two values, garbage) or of the wrong shape for the target, sent uncompressed or compressed (the peer's compressor keeping its window where agreed, a third of the documents repeating an earlier one), framed as one frame / two fragments / one non-final frame plus an empty final frame, read with the shared context or with a context of its own that is cancelled as soon as the call returned; writes: 1-5 wsjson.Write calls incl. values encoding/json rejects (NaN, Inf, chan, func, failing Marshaler), after which the later values must still arrive; decoded into interface{}, a struct, json.RawMessage, []byte, string, map or slice; compared with encoding/json on the same bytes (accept/reject and value), invalid => Close 1007 on the wire, earlier results re-checked after all later reads. writes: generated values written with wsjson.Write must appear as exactly one text message whose payload is JSON-equivalent. Non-trivial: a nested value (depth >= 2) or a RawMessage/[]byte target followed by another read. distinct = hash(mode, conns, per-read (target, mangle, depth, size class))."
	checkProp(t, func(rt *rapid.T) {
		c := genC19(rt)
		var msg string
		var res c19Result
		rapid.SyncTest(rt, func(rt *rapid.T) { msg, res = runC19Reads(rt, c, false) })
		c19Record(rec, c, res, "sequential")
		if msg != "" {
			rt.Fatalf("C19 %s: %s", c19Desc(c), msg)
		}
	})
}

// TestC19Concurrent: the same programs with one goroutine per connection (run under -race too).
func TestC19Concurrent(t *testing.T) {
	rec := evid.For("C19")
	checkProp(t, func(rt *rapid.T) {
		c := genC19(rt)
		c.Conns = 3
		for i := range c.Reads {
			c.Reads[i].Conn = i % 3
		}
		var msg string
		var res c19Result
		rapid.SyncTest(rt, func(rt *rapid.T) { msg, res = runC19Reads(rt, c, true) })
		c19Record(rec, c, res, "concurrent")
		if msg != "" {
			rt.Fatalf("C19 concurrent %s: %s", c19Desc(c), msg)
		}
	})
}

func c19Desc(c c19Case) string {
	s := fmt.Sprintf("mode=%s conns=%d reads=[", c.Mode.Name, c.Conns)
	for _, r := range c.Reads {
		s += fmt.Sprintf("{conn=%d target=%s mangle=%q binary=%v doc=%q} ", r.Conn, r.Target, r.Mangle, r.Binary, trunc(r.Doc))
	}
	return s + "]"
}

func c19Record(rec *evid.Rec, c c19Case, res c19Result, how string) {
	shape := c.Mode.Name + "|" + how + fmt.Sprint(c.Conns)
	classes := []string{how}
	for _, r := range c.Reads {
		shape += fmt.Sprintf("|%d/%s/%s/%d/%d", r.Conn, r.Target, r.Mangle, r.depth, lenClass(len(r.Doc)))
		classes = append(classes, "target:"+r.Target)
		if r.Mangle != "" {
			classes = append(classes, "mangle:"+r.Mangle)
		}
	}
	if res.Rejected > 0 {
		classes = append(classes, "has-rejected-document")
	}
	rec.Case(res.NonTrivial, shape, classes...)
	if rec.WantSample() {
		rec.Sample(c19Desc(c))
	}
}

// TestC19Write: wsjson.Write sends exactly one text message that is JSON-equivalent to the value.
type c19BadMarshaler struct{}

func (c19BadMarshaler) MarshalJSON() ([]byte, error) {
	return nil, errors.New("refuses to be marshalled")
}

func TestC19Write(t *testing.T) {
	rec := evid.For("C19")
	checkProp(t, func(rt *rapid.T) {
		mode := rapid.SampledFrom(c16Modes).Draw(rt, "mode")
		n := rapid.IntRange(1, 5).Draw(rt, "nWrites")
		var vals []any
		bad := map[int]bool{}
		for i := 0; i < n; i++ {
			switch rapid.IntRange(0, 4).Draw(rt, "valKind") {
			case 4:
				// a value encoding/json rejects: the call fails, nothing of it is sent, later values still go out
				bad[i] = true
				vals = append(vals, []any{math.NaN(), math.Inf(1), make(chan int), map[string]any{"deep": []any{1, math.NaN()}}, c19BadMarshaler{}, func() {}}[rapid.IntRange(0, 5).Draw(rt, "badKind")])
			case 0:
				vals = append(vals, c19Struct{A: i, B: rapid.SampledFrom(c19Strings).Draw(rt, "b"), C: []float64{1, 2.5}, F: json.RawMessage(`{"raw":[1,2]}`), G: map[string]any{"k": genJSON(rt, 2)}})
			case 1:
				vals = append(vals, json.RawMessage(`[1,{"a":null}]`))
			default:
				vals = append(vals, genJSON(rt, 5))
			}
		}
		// failAt >= 0: just before write failAt the same goroutine makes a wsjson.Write on ANOTHER connection that
		// fails in the connection (it is closed already, or its context is over) - after the value was encoded.
		// Nothing of that document may show up in what this connection sends.
		failAt, failHow := -1, ""
		if rapid.IntRange(0, 2).Draw(rt, "failedWriteElsewhere") == 0 {
			failAt = rapid.IntRange(0, n-1).Draw(rt, "failedWriteBefore")
			failHow = rapid.SampledFrom([]string{"closed", "cancelled"}).Draw(rt, "failedWriteHow")
		}
		var fail string
		rapid.SyncTest(rt, func(rt *rapid.T) {
			e := newEnv(rt)
			defer e.Teardown()
			lc, err := e.open(connSpec{Client: mode.Client, Mode: mode.Mode, Ext: mode.Ext})
			if err != nil {
				fail = err.Error()
				return
			}
			var other *libConn
			if failAt >= 0 {
				if other, err = e.open(connSpec{Client: mode.Client, Mode: mode.Mode, Ext: mode.Ext}); err != nil {
					fail = err.Error()
					return
				}
				other.Peer.start(e)
				if failHow == "closed" {
					other.C.CloseNow()
				}
			}
			lc.Peer.onFrame = func(f ref.Frame) {
				if f.Opcode == ref.OpClose {
					lc.Peer.send(ref.Frame{Fin: true, Opcode: ref.OpClose, Payload: f.Payload})
				}
			}
			lc.Peer.start(e)
			var werr error
			var good []any
			sawBad := false
			d := e.Call(func() {
				for i, v := range vals {
					if i == failAt {
						fctx, fcancel := context.WithCancel(context.Background())
						if failHow == "cancelled" {
							fcancel()
						}
						ferr := wsjson.Write(fctx, other.C, map[string]any{"document-of-the-other-connection": []any{"must", "never", "be", "seen", "here", i}})
						fcancel()
						if ferr == nil && failHow == "closed" {
							werr = fmt.Errorf("wsjson.Write on a closed connection returned nil")
							return
						}
					}
					err := wsjson.Write(context.Background(), lc.C, v)
					if bad[i] {
						sawBad = true
						if err == nil {
							werr = fmt.Errorf("write %d: a value that encoding/json cannot encode (%T) was written without an error", i, v)
							return
						}
						continue
					}
					if err != nil {
						if cl, _ := lc.Lib.Closed(); sawBad && cl {
							return // an implementation may treat the failed write like any other error and close
						}
						werr = fmt.Errorf("write %d: %w", i, err)
						return
					}
					good = append(good, v)
				}
				lc.C.Close(websocket.StatusNormalClosure, "")
			})
			if !within(d, 60*time.Second) {
				fail = fmt.Sprintf("wsjson.Write calls did not return within 60 s (bad values at %v): a failed write left the connection unusable for the writes after it", bad)
				return
			}
			if werr != nil {
				fail = fmt.Sprintf("wsjson.Write failed: %v", werr)
				return
			}
			vals := good
			lc.Peer.waitEOF(30 * time.Second)
			rep, verr := ref.ValidateStream(lc.End.InRecording(), ref.StreamOpts{FromClient: mode.Client, Deflate: lc.Agreed.Deflate, Takeover: lc.Agreed.SenderTakeover(mode.Client)}, false)
			if verr != nil {
				fail = "emitted stream invalid: " + verr.Error()
				return
			}
			if len(rep.Messages) != len(vals) {
				fail = fmt.Sprintf("%d messages on the wire for %d wsjson.Write calls", len(rep.Messages), len(vals))
				return
			}
			for i, m := range rep.Messages {
				if m.Type != ref.OpText {
					fail = fmt.Sprintf("write %d was sent as a binary message", i)
					return
				}
				want, _ := json.Marshal(vals[i])
				var a, b any
				if err := json.Unmarshal(m.Payload, &a); err != nil {
					fail = fmt.Sprintf("write %d: payload %q is not one JSON value: %v", i, trunc(m.Payload), err)
					return
				}
				json.Unmarshal(want, &b)
				if !reflect.DeepEqual(a, b) {
					fail = fmt.Sprintf("write %d: payload %q is not equivalent to %q", i, trunc(m.Payload), trunc(want))
					return
				}
			}
		})
		wc := "write"
		if len(bad) > 0 {
			wc = "write-with-unencodable-value"
		}
		if failAt >= 0 {
			rec.Class("write-after-a-wsjson.Write-that-failed-on-another-connection:"+failHow, 1)
		}
		rec.Case(true, fmt.Sprintf("write|%s|%d|%v|%v|%d%s", mode.Name, n, jsonDepth(vals[0]), bad, failAt, failHow), wc)
		if fail != "" {
			rt.Fatalf("C19 write mode=%s: %s", mode.Name, fail)
		}
	})
}

// TestC19WriteConcurrent: wsjson.Write from several goroutines on one connection (Write is
// documented as safe for concurrent use). Each call must put exactly one text message on
// the wire whose payload is one JSON value, equivalent to one of the values written, each
// value once. With compression negotiated a message goes through the connection's shared
// streaming writer, which is where two writers can meet.
func TestC19WriteConcurrent(t *testing.T) {
	rec := evid.For("C19")
	checkProp(t, func(rt *rapid.T) {
		mode := rapid.SampledFrom(c16Modes).Draw(rt, "mode")
		writers := rapid.IntRange(2, 5).Draw(rt, "writers")
		per := rapid.IntRange(1, 6).Draw(rt, "valuesPerWriter")
		big := rapid.Bool().Draw(rt, "bigValues")
		var fail string
		rapid.SyncTest(rt, func(rt *rapid.T) {
			e := newEnv(rt)
			defer e.Teardown()
			lc, err := e.open(connSpec{Client: mode.Client, Mode: mode.Mode, Ext: mode.Ext, Threshold: 16})
			if err != nil {
				fail = err.Error()
				return
			}
			lc.Peer.onFrame = func(f ref.Frame) {
				if f.Opcode == ref.OpClose {
					lc.Peer.send(ref.Frame{Fin: true, Opcode: ref.OpClose, Payload: f.Payload})
				}
			}
			lc.Peer.start(e)
			want := map[string]int{}
			var dones []<-chan struct{}
			errs := make([]error, writers)
			for w := 0; w < writers; w++ {
				w := w
				var vals []any
				for i := 0; i < per; i++ {
					v := map[string]any{"writer": w, "seq": i, "pad": strings.Repeat(string(rune('a'+w)), 40+i)}
					if big {
						v["pad"] = strings.Repeat(string(rune('a'+w)), 5000+i)
					}
					b, _ := json.Marshal(v)
					want[string(b)]++
					vals = append(vals, v)
				}
				dones = append(dones, e.Call(func() {
					for _, v := range vals {
						if err := wsjson.Write(context.Background(), lc.C, v); err != nil {
							errs[w] = err
							return
						}
					}
				}))
			}
			for w, d := range dones {
				if !within(d, 120*time.Second) {
					fail = "a wsjson.Write did not return"
					return
				}
				if errs[w] != nil {
					fail = fmt.Sprintf("wsjson.Write of writer %d failed: %v", w, errs[w])
					return
				}
			}
			lc.C.Close(websocket.StatusNormalClosure, "")
			lc.Peer.waitEOF(30 * time.Second)
			rep, verr := ref.ValidateStream(lc.End.InRecording(), ref.StreamOpts{FromClient: mode.Client, Deflate: lc.Agreed.Deflate, Takeover: lc.Agreed.SenderTakeover(mode.Client)}, false)
			if verr != nil {
				fail = "emitted stream invalid: " + verr.Error()
				return
			}
			if len(rep.Messages) != writers*per {
				fail = fmt.Sprintf("%d messages on the wire for %d wsjson.Write calls", len(rep.Messages), writers*per)
				return
			}
			for i, m := range rep.Messages {
				var v any
				if m.Type != ref.OpText {
					fail = fmt.Sprintf("message %d is not a text message", i)
					return
				}
				if err := json.Unmarshal(m.Payload, &v); err != nil {
					fail = fmt.Sprintf("message %d is not one JSON value (%v): %q", i, err, trunc(m.Payload))
					return
				}
				b, _ := json.Marshal(v)
				// (map keys are sorted by Marshal on both sides)
				if want[string(b)] == 0 {
					fail = fmt.Sprintf("message %d (%q) is not one of the values written, or arrived twice", i, trunc(m.Payload))
					return
				}
				want[string(b)]--
			}
		})
		rec.Case(true, fmt.Sprintf("cwrite|%s|%d|%d|%v", mode.Name, writers, per, big), "concurrent-wsjson-writes")
		if fail != "" {
			rt.Fatalf("C19 concurrent writes mode=%s writers=%d per=%d big=%v: %s", mode.Name, writers, per, big, fail)
		}
	})
}
