package props

import (
	"bytes"
	"context"
	"fmt"
	"runtime"
	"testing"
	"time"

	"nhooyr.io/websocket"
	"verif/harness/evid"
	"verif/harness/ref"
)

// Pooled buffers and a transport whose Close does not interrupt pending I/O.
//
// Connection A (client) has a call blocked in its transport when it is closed
// with CloseNow; the transport lets go of that call only 1.5 s later (a Write is
// then accepted: the segment was already on its way). In between, connection B is
// dialled in the same process and used normally. Whatever A's late call still
// does must stay with A: B's emitted bytes are a well-formed frame stream
// carrying exactly B's messages with nothing behind its Close frame, and B reads
// exactly what its own peer sent.
//
// Real clock, outside a synctest bubble (see TestC20Lag); GOMAXPROCS(1) for the
// duration so that sync.Pool hands an object put by A's close to B's Dial.
func poolLagScenario(t *testing.T, id string) {
	rec := evid.For(id)
	old := runtime.GOMAXPROCS(1)
	defer runtime.GOMAXPROCS(old)
	for _, dir := range []string{"write", "read"} {
		msg := func() string {
			e := newEnv(t)
			defer e.Teardown()
			a, err := e.open(connSpec{Client: true})
			if err != nil {
				return "handshake A: " + err.Error()
			}
			a.Lib.SetCloseLag(1500 * time.Millisecond)
			a.Lib.SetCloseLagAccept(true)
			ctx := context.Background()
			if dir == "write" {
				a.End.SetInBudget(0)
				e.Go(func() { a.C.Write(ctx, websocket.MessageBinary, tagged(1, 0, 20000)) })
			} else {
				e.Go(func() { a.C.Read(ctx) })
			}
			time.Sleep(150 * time.Millisecond) // A's call sits in the transport
			e.Go(func() { a.C.CloseNow() })
			time.Sleep(200 * time.Millisecond)
			if dir == "read" {
				// a segment for A that is still on its way when A is closed
				_, seg, _ := finishMasking([]ref.Frame{{Fin: true, Opcode: ref.OpText, Payload: []byte("SECRET-OF-CONNECTION-A, a message that only connection A may ever see")}}, true)
				a.End.Write(seg)
			}
			b, err := e.open(connSpec{Client: true})
			if err != nil {
				return "handshake B: " + err.Error()
			}
			bp := b.Peer
			bp.onFrame = func(f ref.Frame) {
				if f.Opcode == ref.OpClose {
					bp.send(ref.Frame{Fin: true, Opcode: ref.OpClose, Payload: f.Payload})
				}
			}
			bp.start(e)
			out := [][]byte{tagged(2, 0, 6000), tagged(2, 1, 9000)}
			in := [][]byte{tagged(3, 0, 5000), tagged(3, 1, 300)}
			step := func(i int) string {
				if err := b.C.Write(ctx, websocket.MessageBinary, out[i]); err != nil {
					return fmt.Sprintf("B's Write %d failed: %v", i, err)
				}
				bp.send(ref.Frame{Fin: true, Opcode: ref.OpBinary, Payload: in[i]})
				rctx, cancel := context.WithTimeout(ctx, 20*time.Second)
				defer cancel()
				_, got, err := b.C.Read(rctx)
				if err != nil || !bytes.Equal(got, in[i]) {
					return fmt.Sprintf("B's Read %d returned %d bytes, %v; its peer sent %d bytes", i, len(got), err, len(in[i]))
				}
				return ""
			}
			if m := step(0); m != "" {
				return m
			}
			time.Sleep(1600 * time.Millisecond) // A's transport has let go of A's call by now
			if m := step(1); m != "" {
				return m
			}
			if err := b.C.Close(websocket.StatusNormalClosure, ""); err != nil {
				return fmt.Sprintf("B's Close failed: %v", err)
			}
			bp.waitEOF(10 * time.Second)
			rep, verr := ref.ValidateStream(b.End.InRecording(), ref.StreamOpts{FromClient: true}, false)
			if verr != nil {
				return "B's emitted bytes are not a well-formed frame stream: " + verr.Error()
			}
			if len(rep.Messages) != 2 || !bytes.Equal(rep.Messages[0].Payload, out[0]) || !bytes.Equal(rep.Messages[1].Payload, out[1]) {
				return fmt.Sprintf("B's stream carries %d messages, not exactly the two B wrote", len(rep.Messages))
			}
			if len(rep.AfterClose) > 0 {
				return fmt.Sprintf("%d frame(s) follow B's Close frame", len(rep.AfterClose))
			}
			return ""
		}()
		rec.Case(true, "pool-lag|"+dir, "pooled-buffers-vs-transport-that-does-not-interrupt-io")
		if msg != "" {
			failCase(t, id, map[string]any{"pool_lag": dir}, "connection A closed with a %s still in its transport, connection B dialled meanwhile: %s", dir, msg)
		}
	}
}

func TestC02Lag(t *testing.T) { poolLagScenario(t, "C02") }
func TestC07Lag(t *testing.T) { poolLagScenario(t, "C07") }
func TestC16Lag(t *testing.T) { poolLagScenario(t, "C16") }
