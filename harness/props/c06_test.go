package props

import (
	"bytes"
	"context"
	"errors"
	"fmt"
	"io"
	"net"
	"strings"
	"testing"
	"testing/synctest"
	"time"
	"unicode/utf8"

	"nhooyr.io/websocket"
	"pgregory.net/rapid"
	"verif/harness/evid"
	"verif/harness/ref"
)

// C06 — close handshake carries code and reason both ways and closes for good.

type c06Case struct {
	Kind      string `json:"kind"` // "local" | "recv" | "liblib" | "calls"
	Client    bool   `json:"client"`
	Code      int    `json:"code"`       // for recv: -1 = empty payload, -2 = one-byte payload
	ReasonLen int    `json:"reason_len"` //
	Timing    string `json:"timing"`     // idle | after-msg | read-pending | read-after | partial-fin | partial-frag1 | partial-frag2 | unread-queued
	Calls     string `json:"calls,omitempty"`
	Part      int    `json:"part,omitempty"`      // partial-*: how many bytes of the 200-byte message the application reads before Close
	MB        bool   `json:"multibyte,omitempty"` // the reason consists of two-byte characters (ReasonLen counts bytes)
	Raw       bool   `json:"raw_bytes,omitempty"` // the reason is not valid UTF-8 (stray 0xff / 0x80 bytes, a character cut in two): the library passes reasons through as bytes
}

// c06MultiByte switches c06Reason to multi-byte reasons for the current case (cases run one at a time).
var c06MultiByte bool

// c06RawBytes switches c06Reason to reasons that are not valid UTF-8.
var c06RawBytes bool

// c06ReasonRaw: n bytes that are not valid UTF-8 (for n >= 1): a text that ends inside a
// three-byte character, with stray 0xff and continuation bytes in between.
func c06ReasonRaw(n int, code int) string {
	if code < 0 {
		code = -code
	}
	b := make([]byte, 0, n+3)
	for i := 0; len(b) < n; i++ {
		switch (i + code) % 4 {
		case 0:
			b = append(b, byte('a'+(i+code)%26))
		case 1:
			b = append(b, 0xff)
		case 2:
			b = append(b, 0xe2, 0x82, 0xac)
		case 3:
			b = append(b, 0x80)
		}
	}
	b = b[:n]
	if n > 0 && utf8.Valid(b) {
		b[n-1] = 0xe2 // a character cut short by the length limit
	}
	return string(b)
}

var c06PartialTimings = []string{"partial-fin", "partial-frag1", "partial-frag2", "unread-queued", "writer-open-compressed", "slow-peer"}

// c06ReasonMB: a reason of exactly n BYTES made of two-byte characters (and one ASCII
// letter when n is odd): the 123-byte limit of RFC 6455 counts bytes, not characters.
func c06ReasonMB(n int, code int) string {
	if code < 0 {
		code = -code
	}
	var sb strings.Builder
	if n%2 == 1 {
		sb.WriteByte(byte('a' + code%26))
	}
	for sb.Len() < n {
		sb.WriteString([]string{"é", "ü", "ñ", "ø"}[(sb.Len()/2+code)%4])
	}
	return sb.String()
}

func c06Reason(n int, code int) string {
	if code < 0 {
		code = -code
	}
	if c06RawBytes {
		return c06ReasonRaw(n, code)
	}
	if c06MultiByte {
		return c06ReasonMB(n, code)
	}
	var sb strings.Builder
	for i := 0; i < n; i++ {
		sb.WriteByte(byte('a' + (i+code)%26))
	}
	return sb.String()
}

func codeClass(code int) string {
	switch {
	case code < 0 || code > 65535:
		return "out-of-range"
	case code < 1000:
		return "0-999"
	case code == 1005:
		return "1005"
	case code == 1004 || code == 1006 || code == 1015:
		return "reserved-unsendable"
	case code <= 1014:
		return "defined-sendable"
	case code < 3000:
		return "1016-2999"
	case code < 5000:
		return "3000-4999"
	}
	return "5000-65535"
}

func reasonClass(n int) string {
	switch {
	case n == 0:
		return "r0"
	case n <= 122:
		return "r1-122"
	case n == 123:
		return "r123"
	}
	return "r>123"
}

// postCloseChecks: once the connection is closed every further Read, Reader,
// Write, Writer and Ping fails; later Close/CloseNow match net.ErrClosed.
func postCloseChecks(e *env, c *websocket.Conn, alreadyReturned bool) string {
	var msg string
	done := e.Call(func() {
		ctx := context.Background()
		if _, _, err := c.Read(ctx); err == nil {
			msg = "Read succeeded on a closed connection"
			return
		}
		if _, _, err := c.Reader(ctx); err == nil {
			msg = "Reader succeeded on a closed connection"
			return
		}
		if err := c.Write(ctx, websocket.MessageText, []byte("x")); err == nil {
			msg = "Write succeeded on a closed connection"
			return
		}
		if _, err := c.Writer(ctx, websocket.MessageBinary); err == nil {
			msg = "Writer succeeded on a closed connection"
			return
		}
		if err := c.Ping(ctx); err == nil {
			msg = "Ping succeeded on a closed connection"
			return
		}
		if alreadyReturned {
			if err := c.Close(websocket.StatusNormalClosure, ""); !errors.Is(err, net.ErrClosed) {
				msg = fmt.Sprintf("Close after a returned close call: err=%v, want errors.Is(net.ErrClosed)", err)
				return
			}
			if err := c.CloseNow(); !errors.Is(err, net.ErrClosed) {
				msg = fmt.Sprintf("CloseNow after a returned close call: err=%v, want errors.Is(net.ErrClosed)", err)
				return
			}
		}
	})
	if !within(done, 60*time.Second) {
		return "calls on a closed connection did not return within 60 s (virtual)"
	}
	return msg
}

func runC06Local(t fataler, c c06Case) string {
	e := newEnv(t)
	defer e.Teardown()
	spec := connSpec{Client: c.Client}
	if c.Timing == "writer-open-compressed" {
		spec.Mode, spec.Ext = websocket.CompressionContextTakeover, "permessage-deflate"
	}
	lc, err := e.open(spec)
	if err != nil {
		return "handshake: " + err.Error()
	}
	p := lc.Peer
	p.onFrame = func(f ref.Frame) {
		if f.Opcode == ref.OpClose {
			p.send(ref.Frame{Fin: true, Opcode: ref.OpClose, Payload: f.Payload})
		}
	}
	p.start(e)
	conn := lc.C
	preFrames := 0
	var readErr error
	var readDone <-chan struct{}
	switch c.Timing {
	case "after-msg":
		done := e.Call(func() { err = conn.Write(context.Background(), websocket.MessageText, []byte("hello")) })
		if !within(done, 10*time.Second) || err != nil {
			return fmt.Sprintf("pre-close write failed: %v", err)
		}
		preFrames = 1
	case "read-pending":
		readDone = e.Call(func() { _, _, readErr = conn.Read(context.Background()) })
		synctest.Wait()
	case "slow-peer":
		// the peer takes the Close frame only after 3 s and answers 3 s after that: each step is within
		// the 5 s the library allows for it, the two together are not
		lc.End.SetInBudget(0)
		e.Go(func() {
			if e.sleep(3 * time.Second) {
				lc.End.SetInBudget(-1)
			}
		})
		p.onFrame = func(f ref.Frame) {
			if f.Opcode == ref.OpClose {
				pl := f.Payload
				e.Go(func() {
					if e.sleep(3 * time.Second) {
						p.send(ref.Frame{Fin: true, Opcode: ref.OpClose, Payload: pl})
					}
				})
			}
		}
	case "writer-open-compressed":
		// a streamed compressed message is open, and exactly its first frame is out, when Close is called
		var werr error
		done := e.Call(func() {
			w, err := conn.Writer(context.Background(), websocket.MessageBinary)
			if err != nil {
				werr = err
				return
			}
			_, werr = w.Write(expand(ckHeadRandom, uint64(c.Part)+1, 65536))
		})
		if !within(done, 10*time.Second) || werr != nil {
			return fmt.Sprintf("pre-close streamed write failed: %v", werr)
		}
		synctest.Wait()
		fs, _ := p.snapshot()
		preFrames = len(fs)
	case "partial-fin", "partial-frag1", "partial-frag2", "unread-queued":
		// the application has read only a part of a message when it calls Close:
		// what is left of it, and everything queued behind it, is to be discarded
		body := expand(ckText, 7, 200)
		k := c.Part % 200
		switch c.Timing {
		case "partial-fin", "unread-queued":
			p.send(ref.Frame{Fin: true, Opcode: ref.OpText, Payload: body})
		case "partial-frag1", "partial-frag2":
			p.send(ref.Frame{Opcode: ref.OpText, Payload: body[:100]})
			p.send(ref.Frame{Fin: true, Opcode: ref.OpCont, Payload: body[100:]})
			k = c.Part % 100
			if c.Timing == "partial-frag2" {
				k += 100
			}
		}
		if c.Timing == "unread-queued" {
			p.send(ref.Frame{Fin: true, Opcode: ref.OpBinary, Payload: body[:77]})
			p.send(ref.Frame{Opcode: ref.OpText, Payload: body[:3]})
			p.send(ref.Frame{Fin: true, Opcode: ref.OpCont})
		}
		var perr error
		done := e.Call(func() {
			_, r, err := conn.Reader(context.Background())
			if err != nil {
				perr = err
				return
			}
			got := make([]byte, k)
			if _, err := io.ReadFull(r, got); err != nil {
				perr = err
			} else if !bytes.Equal(got, body[:k]) {
				perr = errors.New("wrong bytes")
			}
		})
		if !within(done, 10*time.Second) || perr != nil {
			return fmt.Sprintf("reading %d bytes of the message before Close failed: %v", k, perr)
		}
	}
	reason := c06Reason(c.ReasonLen, c.Code)
	var cerr error
	done := e.Call(func() { cerr = conn.Close(websocket.StatusCode(c.Code), reason) })
	if !within(done, 40*time.Second) {
		return "Close did not return within 40 s (virtual)"
	}
	p.waitEOF(20 * time.Second)
	frames, _ := p.snapshot()
	if len(frames) < preFrames {
		return "pre-close message missing from the wire"
	}
	frames = frames[preFrames:]
	var first *ref.Frame
	for i := range frames {
		if frames[i].Opcode == ref.OpClose {
			first = &frames[i]
			break
		}
	}
	if first != nil && (first.Rsv1 || first.Rsv2 || first.Rsv3 || !first.Fin) {
		return fmt.Sprintf("the Close frame carries RSV bits or is not final (rsv1=%v rsv2=%v rsv3=%v fin=%v): the peer must fail the connection instead of echoing", first.Rsv1, first.Rsv2, first.Rsv3, first.Fin)
	}
	sendable := ref.Sendable(c.Code)
	switch {
	case c.Code == 1005:
		if first == nil {
			return "Close(1005): no Close frame was sent"
		}
		if len(first.Payload) != 0 {
			return fmt.Sprintf("Close(1005): Close frame payload %x, want empty", first.Payload)
		}
		if cerr != nil {
			return fmt.Sprintf("Close(1005) with echoing peer returned %v", cerr)
		}
	case sendable && c.ReasonLen <= 123:
		if first == nil {
			return fmt.Sprintf("Close(%d, %d-byte reason): no Close frame was sent", c.Code, c.ReasonLen)
		}
		if want := ref.ClosePayload(c.Code, reason); !bytes.Equal(first.Payload, want) {
			return fmt.Sprintf("Close frame payload %x, want %x", first.Payload, want)
		}
		if cerr != nil {
			return fmt.Sprintf("Close(%d) returned %v although the peer echoed the code", c.Code, cerr)
		}
	default:
		if len(frames) != 0 {
			return fmt.Sprintf("Close(%d, %d-byte reason) must not send anything, but %d frame(s) were written (first opcode %#x payload %x)", c.Code, c.ReasonLen, len(frames), frames[0].Opcode, frames[0].Payload)
		}
		if cerr == nil {
			return fmt.Sprintf("Close(%d, %d-byte reason) returned nil for an unsendable code / oversize reason", c.Code, c.ReasonLen)
		}
	}
	if readDone != nil {
		if !within(readDone, 5*time.Second) {
			return "pending Read did not return after Close"
		}
		if readErr == nil {
			return "pending Read returned nil error after Close"
		}
	}
	return postCloseChecks(e, conn, true)
}

func runC06Recv(t fataler, c c06Case) string {
	e := newEnv(t)
	defer e.Teardown()
	lc, err := e.open(connSpec{Client: c.Client})
	if err != nil {
		return "handshake: " + err.Error()
	}
	p := lc.Peer
	p.start(e)
	conn := lc.C
	var payload []byte
	reason := c06Reason(c.ReasonLen, c.Code)
	switch c.Code {
	case -1:
		payload = nil
	case -2:
		payload = []byte{0x03}
	default:
		payload = ref.ClosePayload(c.Code, reason)
	}
	type rd struct {
		typ websocket.MessageType
		b   []byte
		err error
	}
	var reads []rd
	stalledEcho := c.Timing == "read-deadline-echo-stalled"
	readLoop := func() {
		for {
			rctx := context.Background()
			if stalledEcho {
				// the reader's own deadline passes while the echo of the peer's Close frame is held up by
				// the transport: the echo is the library's business, not bounded by the caller's context
				var cancel context.CancelFunc
				rctx, cancel = context.WithTimeout(rctx, time.Second)
				defer cancel()
			}
			typ, b, err := conn.Read(rctx)
			reads = append(reads, rd{typ, b, err})
			if err != nil {
				return
			}
		}
	}
	var readDone <-chan struct{}
	wantMsgs := 0
	if c.Timing == "read-pending" || c.Timing == "read-pending-hangup" {
		readDone = e.Call(readLoop)
		synctest.Wait()
	}
	if stalledEcho {
		lc.End.SetInBudget(0) // the peer does not take anything for the next 3 s
		e.Go(func() {
			if e.sleep(3 * time.Second) {
				lc.End.SetInBudget(-1)
			}
		})
	}
	if c.Timing == "after-msg" {
		p.send(ref.Frame{Fin: true, Opcode: ref.OpBinary, Payload: []byte("before close")})
		wantMsgs = 1
	}
	// the Close frame may reach the library in one transport read, byte by byte, or
	// split somewhere inside its payload (derived from the case, so replayable)
	cf := p.prep(ref.Frame{Fin: true, Opcode: ref.OpClose, Payload: payload}).Encode()
	switch (c.Code + c.ReasonLen) % 3 {
	case 0:
		p.sendRaw(cf)
	case 1:
		lc.End.SetPeerMaxRead(1)
		p.sendRaw(cf)
	default:
		cut := len(cf) - len(payload)/2
		p.sendRaw(cf[:cut])
		synctest.Wait()
		p.sendRaw(cf[cut:])
	}
	hangup := strings.HasSuffix(c.Timing, "-hangup")
	if hangup {
		// the peer does not wait for the echo: it hangs up at once, so the
		// library's echo write fails. The Close frame was received all the same.
		lc.End.Close()
	}
	if readDone == nil {
		synctest.Wait()
		readDone = e.Call(readLoop)
	}
	if !within(readDone, 30*time.Second) {
		return "read did not return within 30 s of a Close frame"
	}
	if len(reads) != wantMsgs+1 {
		return fmt.Sprintf("got %d read results, want %d", len(reads), wantMsgs+1)
	}
	if wantMsgs == 1 && (reads[0].err != nil || string(reads[0].b) != "before close") {
		return fmt.Sprintf("message before the Close frame: %q, %v", reads[0].b, reads[0].err)
	}
	rerr := reads[len(reads)-1].err
	p.waitEOF(20 * time.Second)
	frames, _ := p.snapshot()
	var closes []ref.Frame
	for _, f := range frames {
		if f.Opcode == ref.OpClose {
			closes = append(closes, f)
		}
	}
	code, _, valid := ref.ParseClose(payload)
	if valid {
		var ce websocket.CloseError
		if !errors.As(rerr, &ce) {
			return fmt.Sprintf("read error %v is not a CloseError", rerr)
		}
		wantReason := ""
		if len(payload) >= 2 {
			wantReason = reason
		}
		if int(ce.Code) != code || ce.Reason != wantReason {
			return fmt.Sprintf("CloseError{%d, %q}, want {%d, %q}", ce.Code, ce.Reason, code, wantReason)
		}
		if got := websocket.CloseStatus(rerr); int(got) != code {
			return fmt.Sprintf("CloseStatus = %d, want %d", got, code)
		}
		if !hangup {
			if len(closes) == 0 {
				return "received Close frame was not echoed"
			}
			if !bytes.Equal(closes[0].Payload, payload) {
				return fmt.Sprintf("echoed Close payload %x, want %x", closes[0].Payload, payload)
			}
		}
	} else {
		if rerr == nil {
			return "read succeeded on a malformed Close frame"
		}
		var ce websocket.CloseError
		if errors.As(rerr, &ce) && int(ce.Code) == code && len(payload) >= 2 {
			return fmt.Sprintf("unreceivable close code %d was reported as a CloseError", code)
		}
		for _, f := range closes {
			if len(f.Payload) >= 2 {
				if cc, _, ok := ref.ParseClose(f.Payload); !ok {
					return fmt.Sprintf("library sent a Close frame with unsendable code %d", cc)
				}
			}
			if len(f.Payload) == 1 {
				return "library sent a one-byte Close payload"
			}
		}
	}
	// The user now closes, as every user must; afterwards everything fails.
	var cerr error
	done := e.Call(func() { cerr = conn.Close(websocket.StatusNormalClosure, "") })
	if !within(done, 40*time.Second) {
		return "Close after a received Close frame did not return within 40 s"
	}
	_ = cerr
	return postCloseChecks(e, conn, true)
}

func TestC06(t *testing.T) {
	rec := evid.For("C06")
	rec.Rule = "local Close over every wire code 0..65535 plus out-of-range values x reason-length class x role x timing (idle, after a write, with a Read pending, after the application read only k of the 200 bytes of an unfragmented or fragmented message, with further unread messages queued, with a streamed compressed message open whose first frame is out, against a peer that takes the Close frame after 3 s and echoes 3 s later; reasons of ASCII or two-byte characters); received Close frame over every code x reason class x role x timing incl. a reader whose own 1 s deadline passes while the echo is held up by the transport for 3 s (scripted raw peer, virtual time); rapid-drawn mixed cases incl. library<->library and Close/CloseNow call sequences. Non-trivial: sendable code with non-empty reason, or an unsendable code/oversize reason, or repeated close calls. distinct = (kind, code class, reason class, role, timing[, call sequence])."
	seed := evid.Seed()
	var rc c06Case
	if replayCase(t, &rc) {
		synctest.Test(t, func(t *testing.T) {
			if msg := runC06One(t, rc); msg != "" {
				failCase(t, "C06", rc, "%s", msg)
			}
		})
		return
	}
	shard, shards := evid.EnvInt("VERIF_SHARD", 0), evid.EnvInt("VERIF_SHARDS", 1)
	reasonLens := []int{0, 1, 2, 122, 123, 124, 125, 130}
	timingsL := []string{"idle", "after-msg", "read-pending"}
	timingsR := []string{"read-pending", "read-after", "after-msg", "read-pending-hangup", "read-after-hangup"}
	codes := make([]int, 0, 65600)
	for c := 0; c <= 65535; c++ {
		codes = append(codes, c)
	}
	codes = append(codes, -1, -1000, 65536, 70000, 1<<31)
	// out-of-range values whose low 16 bits form a sendable code
	codes = append(codes, 65536+1000, 65536+1001, 65536+3000, 65536+4999, 2*65536+1011, 1000-65536, 4000-65536, 1<<20+1000, 1<<32+1000)
	one := func(c c06Case) {
		var msg string
		synctest.Test(t, func(t *testing.T) { msg = runC06One(t, c) })
		nt := (ref.Sendable(c.Code) && c.ReasonLen > 0) || !ref.Sendable(c.Code) || c.ReasonLen > 123
		rec.Case(nt, fmt.Sprintf("%s/%s/%s/%v/%s", c.Kind, codeClass(c.Code), reasonClass(c.ReasonLen), c.Client, c.Timing),
			c.Kind+":"+codeClass(c.Code), c.Kind+":"+reasonClass(c.ReasonLen), c.Kind+":"+c.Timing)
		if msg != "" {
			failCase(t, "C06", c, "%s", msg)
		}
		if rec.WantSample() && (evid.Mix(seed, uint64(c.Code))%9000 == 0 || c.Code == 1000) {
			rec.Sample(c)
		}
	}
	thorough := evid.Thorough()
	for i, code := range codes {
		if i%shards != shard {
			continue
		}
		r := evid.Mix(seed, uint64(i))
		// quick: local close on one role and received close on the other per code
		// (role from the seed); thorough: both roles, all reason classes for
		// sendable codes.
		roleL := r&1 == 0
		rl := reasonLens[(r>>8)%uint64(len(reasonLens))]
		one(c06Case{Kind: "local", Client: roleL, Code: code, ReasonLen: rl, Timing: timingsL[(r>>16)%3]})
		if code >= 0 && code <= 65535 {
			rl2 := reasonLens[(r>>24)%4] // received reasons must fit a control frame: 0,1,2,122
			if (r>>32)%4 == 0 {
				rl2 = 123
			}
			one(c06Case{Kind: "recv", Client: !roleL, Code: code, ReasonLen: rl2, Timing: timingsR[(r>>40)%5]})
		}
		if thorough || ref.Sendable(code) && code < 1100 || code == 1005 {
			for _, cl := range []bool{false, true} {
				for _, n := range reasonLens {
					one(c06Case{Kind: "local", Client: cl, Code: code, ReasonLen: n, Timing: timingsL[int(r>>20)%3]})
				}
				if thorough && code >= 0 && code <= 65535 {
					for _, n := range []int{0, 1, 60, 123} {
						one(c06Case{Kind: "recv", Client: cl, Code: code, ReasonLen: n, Timing: timingsR[int(r>>44)%5]})
					}
				}
			}
		}
	}
	if shard == 0 {
		for _, cl := range []bool{false, true} {
			for _, tm := range timingsR {
				one(c06Case{Kind: "recv", Client: cl, Code: -1, Timing: tm})
				one(c06Case{Kind: "recv", Client: cl, Code: -2, Timing: tm})
			}
			for n := 118; n <= 130; n++ {
				one(c06Case{Kind: "local", Client: cl, Code: 1000, ReasonLen: n, Timing: "idle", MB: true})
			}
			for _, n := range []int{1, 2, 3, 60, 122, 123, 124} {
				one(c06Case{Kind: "local", Client: cl, Code: 1000, ReasonLen: n, Timing: "read-pending", Raw: true})
				if n <= 123 {
					one(c06Case{Kind: "recv", Client: cl, Code: 4000, ReasonLen: n, Timing: "read-pending", Raw: true})
					one(c06Case{Kind: "recv", Client: cl, Code: 1001, ReasonLen: n, Timing: "read-after", Raw: true})
				}
			}
			for _, code := range []int{1000, 1001, 4001} {
				one(c06Case{Kind: "recv", Client: cl, Code: code, ReasonLen: 7, Timing: "read-deadline-echo-stalled"})
			}
			for _, tm := range c06PartialTimings {
				for _, part := range []int{0, 1, 50, 99} {
					one(c06Case{Kind: "local", Client: cl, Code: 1000, ReasonLen: 4, Timing: tm, Part: part})
				}
			}
			if thorough {
				for n := 0; n <= 130; n++ {
					one(c06Case{Kind: "local", Client: cl, Code: 1000, ReasonLen: n, Timing: "idle"})
					one(c06Case{Kind: "local", Client: cl, Code: 4321, ReasonLen: n, Timing: "read-pending"})
					if n <= 123 {
						one(c06Case{Kind: "recv", Client: cl, Code: 3000, ReasonLen: n, Timing: "read-pending"})
					}
				}
			}
		}
	}
	rec.Exhaustive("local Close over all 65536 wire codes + 14 out-of-range values", true)
	rec.Exhaustive("received Close frame over all 65536 codes", true)
}

func runC06One(t fataler, c c06Case) string {
	c06MultiByte, c06RawBytes = c.MB, c.Raw
	defer func() { c06MultiByte, c06RawBytes = false, false }()
	switch c.Kind {
	case "local":
		return runC06Local(t, c)
	case "recv":
		return runC06Recv(t, c)
	}
	return "unknown kind " + c.Kind
}

// TestC06Mixed: rapid-drawn cases — library<->library close in both
// directions, and sequences of Close/CloseNow calls.
func TestC06Mixed(t *testing.T) {
	rec := evid.For("C06")
	checkProp(t, func(rt *rapid.T) {
		kind := rapid.SampledFrom([]string{"liblib", "calls", "local", "recv"}).Draw(rt, "kind")
		code := rapid.OneOf(
			rapid.SampledFrom([]int{1000, 1001, 1002, 1003, 1007, 1008, 1009, 1010, 1011, 1012, 1013, 1014, 3000, 3999, 4000, 4999}),
			rapid.IntRange(3000, 4999),
			rapid.SampledFrom([]int{0, 999, 1004, 1005, 1006, 1015, 1016, 2999, 5000, 65535}),
			rapid.SampledFrom([]int{65536 + 1000, 65536 + 3000, 3*65536 + 4999, 1000 - 65536, 1<<20 + 1001, 65536 + 1005, 65536}),
		).Draw(rt, "code")
		rl := rapid.SampledFrom([]int{0, 1, 2, 50, 122, 123, 124, 125, 130}).Draw(rt, "reasonLen")
		client := rapid.Bool().Draw(rt, "closerIsClient")
		c := c06Case{Kind: kind, Client: client, Code: code, ReasonLen: rl}
		switch kind {
		case "local":
			c.Timing = rapid.SampledFrom(append([]string{"idle", "after-msg", "read-pending"}, c06PartialTimings...)).Draw(rt, "timing")
			if strings.HasPrefix(c.Timing, "partial") || c.Timing == "unread-queued" {
				c.Part = rapid.IntRange(0, 199).Draw(rt, "part")
			}
		case "recv":
			c.Timing = rapid.SampledFrom([]string{"read-pending", "read-after", "after-msg", "read-pending-hangup", "read-after-hangup", "read-deadline-echo-stalled"}).Draw(rt, "timing")
			if rl > 123 {
				c.ReasonLen = 123
			}
			if c.Code > 65535 || c.Code < 0 {
				c.Code = 1000 // a frame carries 16 bits
			}
		case "liblib":
			c.Timing = rapid.SampledFrom([]string{"read-pending", "read-after", "after-msg"}).Draw(rt, "timing")
		case "calls":
			n := rapid.IntRange(2, 4).Draw(rt, "ncalls")
			var sb strings.Builder
			for i := 0; i < n; i++ {
				sb.WriteString(rapid.SampledFrom([]string{"C", "N", "c", "n"}).Draw(rt, "call")) // upper = sequential, lower = concurrent with previous
			}
			c.Calls = sb.String()
			c.Timing = "idle"
		}
		switch rapid.IntRange(0, 5).Draw(rt, "reasonBytes") {
		case 0, 1:
			c.MB = true
		case 2:
			c.Raw = true
		}
		c06MultiByte, c06RawBytes = c.MB, c.Raw
		defer func() { c06MultiByte, c06RawBytes = false, false }()
		var msg string
		rapid.SyncTest(rt, func(rt *rapid.T) {
			switch kind {
			case "liblib":
				msg = runC06LibLib(rt, c)
			case "calls":
				msg = runC06Calls(rt, c)
			default:
				msg = runC06One(rt, c)
			}
		})
		nt := (ref.Sendable(c.Code) && c.ReasonLen > 0) || !ref.Sendable(c.Code) || c.ReasonLen > 123 || kind == "calls"
		rec.Case(nt, fmt.Sprintf("%s/%s/%s/%v/%s/%s/%v", c.Kind, codeClass(c.Code), reasonClass(c.ReasonLen), c.Client, c.Timing, c.Calls, c.MB || c.Raw),
			c.Kind+":"+codeClass(c.Code), c.Kind+":"+c.Timing)
		if kind == "liblib" || kind == "calls" {
			rec.Sample(c)
		}
		if msg != "" {
			rt.Fatalf("C06 %+v: %s", c, msg)
		}
	})
}

// libPair makes a library client and a library server joined by two scripted
// transports spliced by forwarding goroutines (so the wire can be tapped).
type libPair struct {
	Cl, Sv *websocket.Conn
}

func runC06LibLib(t fataler, c c06Case) string {
	e := newEnv(t)
	defer e.Teardown()
	pr, err := e.openPair(pairSpec{})
	if err != nil {
		return "handshake: " + err.Error()
	}
	closer, other := pr.Cl, pr.Sv
	if !c.Client {
		closer, other = pr.Sv, pr.Cl
	}
	reason := c06Reason(c.ReasonLen, c.Code)
	type rd struct {
		b   []byte
		err error
	}
	var reads []rd
	readLoop := func() {
		for {
			_, b, err := other.Read(context.Background())
			reads = append(reads, rd{b, err})
			if err != nil {
				return
			}
		}
	}
	var readDone <-chan struct{}
	wantMsgs := 0
	if c.Timing == "read-pending" {
		readDone = e.Call(readLoop)
		synctest.Wait()
	}
	if c.Timing == "after-msg" {
		var werr error
		d := e.Call(func() { werr = closer.Write(context.Background(), websocket.MessageText, []byte("m1")) })
		if !within(d, 10*time.Second) || werr != nil {
			return fmt.Sprintf("write before close: %v", werr)
		}
		wantMsgs = 1
	}
	var cerr error
	closeDone := e.Call(func() { cerr = closer.Close(websocket.StatusCode(c.Code), reason) })
	if readDone == nil {
		synctest.Wait()
		readDone = e.Call(readLoop)
	}
	sendable := ref.Sendable(c.Code) && c.ReasonLen <= 123
	if !within(closeDone, 40*time.Second) {
		return "Close did not return within 40 s"
	}
	if !within(readDone, 40*time.Second) {
		return "peer's read did not return within 40 s of Close"
	}
	if len(reads) != wantMsgs+1 {
		return fmt.Sprintf("peer got %d read results, want %d", len(reads), wantMsgs+1)
	}
	rerr := reads[len(reads)-1].err
	if rerr == nil {
		return "peer's read returned nil after close"
	}
	if sendable || c.Code == 1005 {
		var ce websocket.CloseError
		if !errors.As(rerr, &ce) {
			return fmt.Sprintf("peer's read error %v is not a CloseError", rerr)
		}
		wantReason := reason
		if c.Code == 1005 {
			wantReason = ""
		}
		if int(ce.Code) != c.Code || ce.Reason != wantReason {
			return fmt.Sprintf("peer saw CloseError{%d,%q}, want {%d,%q}", ce.Code, ce.Reason, c.Code, wantReason)
		}
		if cerr != nil {
			return fmt.Sprintf("Close returned %v although the peer echoed", cerr)
		}
	} else {
		if cerr == nil {
			return "Close returned nil for an unsendable code / oversize reason"
		}
		var ce websocket.CloseError
		if errors.As(rerr, &ce) {
			return fmt.Sprintf("peer saw CloseError{%d,%q} although nothing may be sent", ce.Code, ce.Reason)
		}
	}
	var c2 error
	d := e.Call(func() { c2 = other.Close(websocket.StatusNormalClosure, "") })
	if !within(d, 40*time.Second) {
		return "peer's own Close did not return"
	}
	_ = c2
	if m := postCloseChecks(e, closer, true); m != "" {
		return "closer: " + m
	}
	if m := postCloseChecks(e, other, true); m != "" {
		return "peer: " + m
	}
	return ""
}

func runC06Calls(t fataler, c c06Case) string {
	e := newEnv(t)
	defer e.Teardown()
	lc, err := e.open(connSpec{Client: c.Client})
	if err != nil {
		return "handshake: " + err.Error()
	}
	p := lc.Peer
	p.onFrame = func(f ref.Frame) {
		if f.Opcode == ref.OpClose {
			p.send(ref.Frame{Fin: true, Opcode: ref.OpClose, Payload: f.Payload})
		}
	}
	p.start(e)
	conn := lc.C
	code := c.Code
	if !ref.Sendable(code) {
		code = 1000
	}
	type res struct {
		err                error
		startedAfterReturn bool
	}
	results := make([]res, len(c.Calls))
	returned := false
	var pending []<-chan struct{}
	for i, ch := range c.Calls {
		i := i
		call := func() {
			if ch == 'C' || ch == 'c' {
				results[i].err = conn.Close(websocket.StatusCode(code), "bye")
			} else {
				results[i].err = conn.CloseNow()
			}
		}
		sequential := ch == 'C' || ch == 'N'
		if sequential {
			for _, d := range pending {
				if !within(d, 60*time.Second) {
					return "a close call did not return within 60 s"
				}
				returned = true
			}
			pending = nil
		}
		results[i].startedAfterReturn = returned
		d := e.Call(call)
		if sequential {
			if !within(d, 60*time.Second) {
				return "a close call did not return within 60 s"
			}
			returned = true
		} else {
			pending = append(pending, d)
		}
	}
	for _, d := range pending {
		if !within(d, 60*time.Second) {
			return "a close call did not return within 60 s"
		}
	}
	for i, r := range results {
		if r.startedAfterReturn && !errors.Is(r.err, net.ErrClosed) {
			return fmt.Sprintf("call %d (%c) started after a close call had returned: err=%v, want errors.Is(net.ErrClosed)", i, c.Calls[i], r.err)
		}
	}
	return postCloseChecks(e, conn, true)
}

// TestC06TwoClosers: Close is documented as safe for concurrent use. A second Close that
// arrives while the first one is still WRITING its Close frame (the peer takes no bytes for a
// while) must not cut that frame off: once the window opens the wire carries the first call's
// Close frame with exactly its code and reason, the peer echoes it, and the first call returns
// nil. Enumerated: role x held-up time x what the second call is x how much of the frame had
// left when it arrived.
func TestC06TwoClosers(t *testing.T) {
	rec := evid.For("C06")
	type tcCase struct {
		Client bool
		Hold   time.Duration
		Second string // close-same | close-other
		Budget int64
	}
	for _, client := range []bool{false, true} {
		for _, hold := range []time.Duration{300 * time.Millisecond, 2 * time.Second, 4 * time.Second} {
			for _, second := range []string{"close-same", "close-other"} {
				for _, budget := range []int64{0, 1, 3} {
					c := tcCase{client, hold, second, budget}
					var msg string
					synctest.Test(t, func(t *testing.T) {
						e := newEnv(t)
						defer e.Teardown()
						lc, err := e.open(connSpec{Client: client})
						if err != nil {
							msg = "handshake: " + err.Error()
							return
						}
						p := lc.Peer
						p.onFrame = func(f ref.Frame) {
							if f.Opcode == ref.OpClose {
								p.send(ref.Frame{Fin: true, Opcode: ref.OpClose, Payload: f.Payload})
							}
						}
						p.start(e)
						lc.End.SetInBudget(budget)
						reason := "first closer's reason"
						var err1, err2 error
						d1 := e.Call(func() { err1 = lc.C.Close(3210, reason) })
						synctest.Wait() // the first Close is blocked writing its frame
						e.sleep(hold / 2)
						d2 := e.Call(func() {
							if second == "close-same" {
								err2 = lc.C.Close(3210, reason)
							} else {
								err2 = lc.C.Close(websocket.StatusGoingAway, "second closer")
							}
						})
						e.sleep(hold / 2)
						lc.End.SetInBudget(-1)
						if !within(d1, 30*time.Second) || !within(d2, 30*time.Second) {
							msg = "the Close calls did not return within 30 s"
							return
						}
						p.waitEOF(30 * time.Second)
						out, _ := p.snapshot()
						var closes [][]byte
						for _, f := range out {
							if f.Opcode == ref.OpClose {
								closes = append(closes, f.Payload)
							}
						}
						want := ref.ClosePayload(3210, reason)
						if len(closes) == 0 {
							msg = fmt.Sprintf("no Close frame reached the peer although it took bytes again after %v (well within the 5 s Close allows for writing it): the connection was torn down under the first Close (err1=%v err2=%v)", hold, err1, err2)
							return
						}
						if !bytes.Equal(closes[0], want) {
							msg = fmt.Sprintf("the first Close frame on the wire carries %x, the first Close call asked for code 3210 reason %q", closes[0], reason)
							return
						}
						if err1 != nil {
							msg = fmt.Sprintf("the peer echoed the first caller's code, but its Close returned %v", err1)
						}
					})
					rec.Case(true, fmt.Sprintf("twoclosers|%+v", c), "second-Close-while-the-first-is-writing-its-frame")
					if msg != "" {
						failCase(t, "C06", c, "%s", msg)
					}
				}
			}
		}
	}
}

// TestC06CloseBesideReader: Close from one goroutine while another goroutine is in the middle of
// reading a message whose frame has only partly arrived. While Close waits for the reader to let
// go of the stream, the rest of that frame arrives and the reader takes it; then the peer echoes.
// "Close returns nil when the peer echoes the code" - however the stream position moved while
// Close was waiting. Enumerated: role x frame size x how much had arrived x read buffer x whether
// a further message follows before the echo.
func TestC06CloseBesideReader(t *testing.T) {
	rec := evid.For("C06")
	type cbCase struct {
		Client  bool
		Size    int
		Arrived int
		Buf     int
		Extra   bool
	}
	for _, client := range []bool{false, true} {
		for _, size := range []int{200, 5000} {
			for _, arrivedPct := range []int{0, 50, 99} {
				for _, buf := range []int{1, 64, 8192} {
					for _, extra := range []bool{false, true} {
						c := cbCase{client, size, size * arrivedPct / 100, buf, extra}
						var msg string
						synctest.Test(t, func(t *testing.T) {
							e := newEnv(t)
							defer e.Teardown()
							lc, err := e.open(connSpec{Client: client})
							if err != nil {
								msg = "handshake: " + err.Error()
								return
							}
							p := lc.Peer
							p.start(e)
							body := expand(ckText, 5, size)
							_, wire, _ := finishMasking([]ref.Frame{{Fin: true, Opcode: ref.OpBinary, Payload: body}}, client)
							hdr := len(wire) - size
							p.sendRaw(wire[:hdr+c.Arrived])
							e.Go(func() {
								ctx := context.Background()
								for {
									_, r, err := lc.C.Reader(ctx)
									if err != nil {
										return
									}
									b := make([]byte, buf)
									for {
										if _, err := r.Read(b); err != nil {
											break
										}
									}
								}
							})
							synctest.Wait() // the reader is blocked in the middle of the frame
							var cerr error
							d := e.Call(func() { cerr = lc.C.Close(websocket.StatusNormalClosure, "done") })
							synctest.Wait() // Close has written its frame and waits for the reader
							e.sleep(100 * time.Millisecond)
							p.sendRaw(wire[hdr+c.Arrived:])
							if extra {
								p.send(ref.Frame{Fin: true, Opcode: ref.OpText, Payload: []byte("one more message that was already on its way")})
							}
							e.sleep(100 * time.Millisecond)
							p.send(ref.Frame{Fin: true, Opcode: ref.OpClose, Payload: ref.ClosePayload(1000, "done")})
							if !within(d, 30*time.Second) {
								msg = "Close did not return within 30 s"
								return
							}
							if cerr != nil {
								msg = fmt.Sprintf("the peer echoed the Close frame (code 1000) 200 ms after the rest of a partly received frame, but Close returned: %v", cerr)
							}
						})
						rec.Case(true, fmt.Sprintf("closebesidereader|%+v", c), "Close-while-another-goroutine-reads-a-partly-received-frame")
						if msg != "" {
							failCase(t, "C06", c, "%s", msg)
						}
					}
				}
			}
		}
	}
}

// TestC06CloseQueued: the application's Close is called while a Write of the same connection is held
// up by the transport, so its Close frame has to queue; the peer's own Close frame arrives meanwhile
// (before or after the call) and is taken in by a reader. When the transport moves again one Close
// frame must go out: the one the application asked for, or the echo of the peer's - "Close emits a Close
// frame with exactly that code and reason", "a received Close frame is echoed with the same code";
// which of the two wins the frame lock is up to the scheduler, that one of them is sent is not.
func TestC06CloseQueued(t *testing.T) {
	rec := evid.For("C06")
	type cqCase struct {
		Client   bool
		PeerCode int
		Order    string
		Hold     time.Duration
	}
	for _, client := range []bool{false, true} {
		for _, peerCode := range []int{1000, 4002} {
			for _, order := range []string{"close-first", "peer-first"} {
				for _, hold := range []time.Duration{time.Millisecond, time.Second, 3 * time.Second} {
					c := cqCase{client, peerCode, order, hold}
					var msg string
					synctest.Test(t, func(t *testing.T) {
						e := newEnv(t)
						defer e.Teardown()
						lc, err := e.open(connSpec{Client: client})
						if err != nil {
							msg = "handshake: " + err.Error()
							return
						}
						p := lc.Peer
						p.start(e)
						rd := e.Call(func() { lc.C.Read(context.Background()) })
						lc.End.SetInBudget(0)
						wd := e.Call(func() { lc.C.Write(context.Background(), websocket.MessageBinary, make([]byte, 9000)) })
						synctest.Wait() // the Write is stuck in the transport, holding the frame lock
						var cd <-chan struct{}
						closeIt := func() {
							cd = e.Call(func() { lc.C.Close(websocket.StatusCode(4001), "application") })
							synctest.Wait()
						}
						if order == "close-first" {
							closeIt()
						}
						p.send(ref.Frame{Fin: true, Opcode: ref.OpClose, Payload: ref.ClosePayload(peerCode, "peer")})
						synctest.Wait()
						if order == "peer-first" {
							closeIt()
						}
						e.sleep(hold)
						lc.End.SetInBudget(-1) // the peer reads again
						if !within(cd, 30*time.Second) || !within(rd, 30*time.Second) || !within(wd, 30*time.Second) {
							msg = "Close, Read or Write did not return within 30 s of the transport moving again"
							return
						}
						lc.C.CloseNow()
						p.waitEOF(30 * time.Second)
						out, _ := p.snapshot()
						var closes [][]byte
						for _, f := range out {
							if f.Opcode == ref.OpClose {
								closes = append(closes, f.Payload)
							}
						}
						app, echo := ref.ClosePayload(4001, "application"), ref.ClosePayload(peerCode, "peer")
						switch {
						case len(closes) == 0:
							msg = fmt.Sprintf("no Close frame was sent: neither the application's Close(4001) nor the echo of the peer's Close frame (%d), both of which were waiting for a Write held up for %v", peerCode, hold)
						case len(closes) > 1:
							msg = fmt.Sprintf("%d Close frames were sent", len(closes))
						case !bytes.Equal(closes[0], app) && !bytes.Equal(closes[0], echo):
							msg = fmt.Sprintf("the Close frame on the wire carries %x: neither what the application asked for nor the echo of the peer's", closes[0])
						}
					})
					rec.Case(true, fmt.Sprintf("closequeued|%+v", c), "Close-queued-behind-a-held-up-Write-while-the-peer's-Close-frame-arrives")
					if msg != "" {
						failCase(t, "C06", c, "%s", msg)
					}
				}
			}
		}
	}
}
