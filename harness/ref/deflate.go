package ref

import (
	"bytes"
	"compress/flate"
	"errors"
	"fmt"
	"io"
)

const window = 32768

var syncTail = []byte{0x00, 0x00, 0xff, 0xff}

// finalEmpty is a BFINAL=1 empty stored block; appended so that Go's inflater
// terminates after the sender's last (non-final) block.
var finalEmpty = []byte{0x01, 0x00, 0x00, 0xff, 0xff}

// Inflater decodes permessage-deflate message payloads as RFC 7692 §7.2.2
// describes, with the LZ77 history kept explicitly.
type Inflater struct {
	Takeover bool
	hist     []byte
	total    int
	Slid     bool // history ever exceeded the 32 KiB window
}

func NewInflater(takeover bool) *Inflater { return &Inflater{Takeover: takeover} }

// ErrAfterFinal: data after a BFINAL=1 block (malformed for permessage-deflate).
var ErrAfterFinal = errors.New("ref: data after a BFINAL=1 DEFLATE block")

// ErrTooBig is returned when the output would exceed max.
var ErrTooBig = errors.New("ref: inflated size exceeds bound")

// Message inflates one message payload (the concatenation of its frames'
// payloads). max bounds the output.
func (in *Inflater) Message(raw []byte, max int) ([]byte, error) {
	data := make([]byte, 0, len(raw)+9)
	data = append(data, raw...)
	data = append(data, syncTail...)
	data = append(data, finalEmpty...)
	br := bytes.NewReader(data)
	var out []byte
	hist := in.hist
	for seg := 0; ; seg++ {
		fr := flate.NewReaderDict(br, hist)
		chunk, err := readAllMax(fr, max-len(out))
		out = append(out, chunk...)
		if err != nil {
			return out, err
		}
		// A BFINAL=1 block ended the DEFLATE stream. RFC 7692 section 7.2.3.4 allows
		// exactly that at the end of a message (followed by the 0x00 octet);
		// anything after it that still produces data is not a DEFLATE stream.
		if seg > 0 && len(chunk) > 0 {
			return out, ErrAfterFinal
		}
		if br.Len() == 0 {
			break
		}
		hist = tail(append(append([]byte(nil), hist...), chunk...), window)
	}
	if in.Takeover {
		in.total += len(out)
		if in.total > window {
			in.Slid = true
		}
		in.hist = tail(append(in.hist, out...), window)
	}
	return out, nil
}

// PrefixOK reports whether raw could be the beginning of a well-formed
// compressed message: inflating it runs out of input rather than hitting
// corrupt data.
func (in *Inflater) PrefixOK(raw []byte) bool {
	br := bytes.NewReader(raw)
	hist := in.hist
	for seg := 0; ; seg++ {
		fr := flate.NewReaderDict(br, hist)
		chunk, err := readAllMax(fr, 1<<28)
		if seg > 0 && len(chunk) > 0 {
			return false
		}
		if err != nil {
			return errors.Is(err, io.ErrUnexpectedEOF)
		}
		if br.Len() == 0 {
			return true
		}
		hist = tail(append(append([]byte(nil), hist...), chunk...), window)
	}
}

func tail(b []byte, n int) []byte {
	if len(b) > n {
		return append([]byte(nil), b[len(b)-n:]...)
	}
	return b
}

func readAllMax(r io.Reader, max int) ([]byte, error) {
	var out []byte
	buf := make([]byte, 8192)
	for {
		n, err := r.Read(buf)
		out = append(out, buf[:n]...)
		if len(out) > max {
			return out[:max], ErrTooBig
		}
		if err == io.EOF {
			return out, nil
		}
		if err != nil {
			return out, err
		}
	}
}

// DeflateVariant selects how a foreign sender produces a compressed message.
type DeflateVariant int

const (
	DVSync       DeflateVariant = iota // one sync flush at the end, tail stripped
	DVBFinal                           // BFINAL=1 block(s) followed by 0x00 (RFC 7692 §7.2.3.4)
	DVStored                           // stored (uncompressed) DEFLATE blocks
	DVMultiFlush                       // several sync flushes inside the message
	DVBest                             // level 9
	DVHuffman                          // Huffman-only
	NumDeflateVariants
)

func (v DeflateVariant) String() string {
	switch v {
	case DVSync:
		return "sync"
	case DVBFinal:
		return "bfinal"
	case DVStored:
		return "stored"
	case DVMultiFlush:
		return "multiflush"
	case DVBest:
		return "best"
	case DVHuffman:
		return "huffman"
	}
	return fmt.Sprintf("variant%d", int(v))
}

// Deflater is a foreign permessage-deflate sender. With Takeover it keeps its
// LZ77 window across (compressed) messages, so later messages really
// back-reference earlier ones.
type Deflater struct {
	Takeover bool
	hist     []byte
}

func NewDeflater(takeover bool) *Deflater {
	return &Deflater{Takeover: takeover}
}

func levelOf(v DeflateVariant) int {
	switch v {
	case DVStored:
		return flate.NoCompression
	case DVBest:
		return flate.BestCompression
	case DVHuffman:
		return flate.HuffmanOnly
	}
	return 6
}

// Message compresses one message payload and returns the bytes to put into the
// frames (RSV1 on the first).
func (d *Deflater) Message(p []byte, v DeflateVariant) []byte {
	hist := d.hist
	if !d.Takeover {
		hist = nil
	}
	out := deflateOnce(p, v, hist)
	// compress/flate's NewWriterDict emits the dictionary bytes inside stored
	// blocks for incompressible input (observed with go1.23 and go1.26), which
	// would make this sender non-conforming. Verify, and fall back to not
	// referencing the window (always legal for a sender).
	if len(hist) > 0 {
		chk := &Inflater{Takeover: true, hist: hist}
		if got, err := chk.Message(out, len(p)+1); err != nil || !bytes.Equal(got, p) {
			out = deflateOnce(p, v, nil)
		}
	}
	if d.Takeover {
		d.hist = tail(append(d.hist, p...), window)
	}
	return out
}

func deflateOnce(p []byte, v DeflateVariant, hist []byte) []byte {
	var b bytes.Buffer
	lvl := levelOf(v)
	var w *flate.Writer
	if len(hist) > 0 {
		w, _ = flate.NewWriterDict(&b, lvl, hist)
	} else {
		w, _ = flate.NewWriter(&b, lvl)
	}
	if v == DVBFinal {
		w.Write(p)
		w.Close()
		return append(append([]byte(nil), b.Bytes()...), 0x00)
	}
	if v == DVMultiFlush && len(p) > 1 {
		third := len(p)/3 + 1
		for q := p; len(q) > 0; {
			n := third
			if n > len(q) {
				n = len(q)
			}
			w.Write(q[:n])
			w.Flush()
			q = q[n:]
		}
	} else {
		w.Write(p)
		w.Flush()
	}
	out := b.Bytes()
	if !bytes.HasSuffix(out, syncTail) {
		panic("ref: flate flush did not end in sync marker")
	}
	return append([]byte(nil), out[:len(out)-4]...)
}

// CraftBackref returns a compressed-message payload (fixed-Huffman DEFLATE
// block, no tail) whose very first instruction is "copy 258 bytes from
// `distance` bytes back", followed by end-of-block. Inflated with a window that
// holds at least `distance` bytes of history it yields 258 bytes of that
// history; with less history it is malformed ("distance too far back"). A
// hostile peer uses it to read whatever an endpoint's LZ77 window still holds.
func CraftBackref(distance int) []byte {
	var out []byte
	var acc uint64
	var nbits uint
	put := func(v uint64, n uint) { // LSB-first packing
		acc |= v << nbits
		nbits += n
		for nbits >= 8 {
			out = append(out, byte(acc))
			acc >>= 8
			nbits -= 8
		}
	}
	putHuff := func(code uint64, n uint) { // Huffman codes go in MSB-first
		for i := int(n) - 1; i >= 0; i-- {
			put((code>>uint(i))&1, 1)
		}
	}
	put(0, 1)                        // BFINAL = 0
	put(1, 2)                        // BTYPE = 01 (fixed Huffman)
	putHuff(0b11000000+(285-280), 8) // length symbol 285 = 258 bytes, no extra bits
	base := []int{1, 2, 3, 4, 5, 7, 9, 13, 17, 25, 33, 49, 65, 97, 129, 193, 257, 385, 513, 769, 1025, 1537, 2049, 3073, 4097, 6145, 8193, 12289, 16385, 24577}
	extra := []uint{0, 0, 0, 0, 1, 1, 2, 2, 3, 3, 4, 4, 5, 5, 6, 6, 7, 7, 8, 8, 9, 9, 10, 10, 11, 11, 12, 12, 13, 13}
	code := 0
	for i := range base {
		if distance >= base[i] {
			code = i
		}
	}
	putHuff(uint64(code), 5)
	put(uint64(distance-base[code]), extra[code])
	putHuff(0, 7) // end of block (symbol 256)
	// like a sync flush: header of an empty stored block, padded to the byte
	// boundary; its LEN/NLEN (00 00 ff ff) is the tail the receiver appends
	put(0, 1)
	put(0, 2)
	if nbits > 0 {
		out = append(out, byte(acc))
	}
	return out
}
