package ref

import (
	"crypto/sha1"
	"encoding/base64"
	"strings"
)

// AcceptKey is base64(SHA-1(key + GUID)), RFC 6455 section 4.2.2.
func AcceptKey(key string) string {
	h := sha1.Sum([]byte(key + "258EAFA5-E914-47DA-95CA-C5AB0DC85B11"))
	return base64.StdEncoding.EncodeToString(h[:])
}

// RawRequest is the harness's own reading of an HTTP/1.x request text: request
// line fields and header lines, names lower-cased, values trimmed.
type RawRequest struct {
	Method, Target, Version string
	Headers                 []([2]string)
	OK                      bool
}

// ParseRawRequest splits request text into its lines without net/http.
func ParseRawRequest(text string) RawRequest {
	var r RawRequest
	head := text
	if i := strings.Index(text, "\r\n\r\n"); i >= 0 {
		head = text[:i]
	}
	lines := strings.Split(head, "\r\n")
	if len(lines) == 0 {
		return r
	}
	f := strings.Split(lines[0], " ")
	if len(f) != 3 {
		return r
	}
	r.Method, r.Target, r.Version = f[0], f[1], f[2]
	for _, l := range lines[1:] {
		i := strings.IndexByte(l, ':')
		if i <= 0 {
			return r
		}
		r.Headers = append(r.Headers, [2]string{strings.ToLower(l[:i]), strings.Trim(l[i+1:], " \t")})
	}
	r.OK = true
	return r
}

// Values returns the values of all lines of a header, in order.
func (r RawRequest) Values(name string) []string {
	var out []string
	for _, h := range r.Headers {
		if h[0] == strings.ToLower(name) {
			out = append(out, h[1])
		}
	}
	return out
}

// Tokens splits header values at commas and trims optional whitespace.
func Tokens(values []string) []string {
	var out []string
	for _, v := range values {
		for _, t := range strings.Split(v, ",") {
			out = append(out, strings.Trim(t, " \t"))
		}
	}
	return out
}

// HasToken reports a case-insensitive token match.
func HasToken(values []string, token string) bool {
	for _, t := range Tokens(values) {
		if strings.EqualFold(t, token) {
			return true
		}
	}
	return false
}

const b64 = "ABCDEFGHIJKLMNOPQRSTUVWXYZabcdefghijklmnopqrstuvwxyz0123456789+/"

// KeyShape classifies a Sec-WebSocket-Key value: "valid" (24 characters: 22 of
// the standard alphabet, the 22nd with zero trailing bits, then "=="),
// "noncanonical" (as valid but with non-zero trailing bits: decoders differ),
// or "invalid".
func KeyShape(k string) string {
	if len(k) != 24 || k[22:] != "==" {
		return "invalid"
	}
	for i := 0; i < 22; i++ {
		if strings.IndexByte(b64, k[i]) < 0 {
			return "invalid"
		}
	}
	if strings.IndexByte(b64, k[21])&0x0f != 0 {
		return "noncanonical"
	}
	return "valid"
}

// ExtParam is one parameter of an extension offer or response.
type ExtParam struct {
	Name, Value string
	HasValue    bool
}

// Ext is one extension element of a Sec-WebSocket-Extensions header.
type Ext struct {
	Name   string
	Params []ExtParam
}

// ParseExtensions parses header values per RFC 6455 section 9.1 (comma
// separated extensions, semicolon separated parameters, optional "=value").
func ParseExtensions(values []string) []Ext {
	var out []Ext
	for _, el := range Tokens(values) {
		if el == "" {
			continue
		}
		parts := strings.Split(el, ";")
		e := Ext{Name: strings.Trim(parts[0], " \t")}
		for _, p := range parts[1:] {
			p = strings.Trim(p, " \t")
			var ep ExtParam
			if i := strings.IndexByte(p, '='); i >= 0 {
				ep = ExtParam{Name: strings.Trim(p[:i], " \t"), Value: strings.Trim(p[i+1:], " \t"), HasValue: true}
			} else {
				ep = ExtParam{Name: p}
			}
			e.Params = append(e.Params, ep)
		}
		out = append(out, e)
	}
	return out
}

// WindowBits parses a max_window_bits value: ok for the decimal integers 8..15
// without leading zeros (RFC 7692 section 7.1.2).
func WindowBits(v string) (int, bool) {
	v = strings.Trim(v, "\"")
	switch v {
	case "8", "9":
		return int(v[0] - '0'), true
	case "10", "11", "12", "13", "14", "15":
		return 10 + int(v[1]-'0'), true
	}
	return 0, false
}

// OfferJudgement says whether a server that cannot change its LZ77 window may
// accept a permessage-deflate offer in full.
type OfferJudgement struct {
	Honourable  bool // every parameter is known, well-formed and can be honoured
	Ambiguous   bool // duplicated parameters: accepting or declining are both defensible
	ServerNoCtx bool
	ClientNoCtx bool
	ClientBits  bool // client_max_window_bits present (client allows the server to answer with it)
	Why         string
}

// JudgeOffer applies RFC 7692 section 7.1 to one offer element.
func JudgeOffer(e Ext) OfferJudgement {
	j := OfferJudgement{Honourable: true}
	if e.Name != "permessage-deflate" {
		return OfferJudgement{Why: "other extension"}
	}
	seen := map[string]bool{}
	for _, p := range e.Params {
		name := strings.ToLower(p.Name)
		if seen[name] {
			j.Ambiguous = true
		}
		seen[name] = true
		switch name {
		case "server_no_context_takeover":
			if p.HasValue {
				return OfferJudgement{Why: "server_no_context_takeover with a value"}
			}
			j.ServerNoCtx = true
		case "client_no_context_takeover":
			if p.HasValue {
				return OfferJudgement{Why: "client_no_context_takeover with a value"}
			}
			j.ClientNoCtx = true
		case "client_max_window_bits":
			j.ClientBits = true
			if p.HasValue {
				if _, ok := WindowBits(p.Value); !ok {
					return OfferJudgement{Why: "malformed client_max_window_bits value"}
				}
			}
		case "server_max_window_bits":
			if !p.HasValue {
				return OfferJudgement{Why: "server_max_window_bits without a value"}
			}
			n, ok := WindowBits(p.Value)
			if !ok {
				return OfferJudgement{Why: "malformed server_max_window_bits value"}
			}
			if n < 15 {
				return OfferJudgement{Why: "server_max_window_bits below 15 cannot be honoured"}
			}
		default:
			return OfferJudgement{Why: "unknown parameter " + p.Name}
		}
	}
	return j
}
