// Package ref is the harness's independent RFC 6455 / RFC 7692 reference:
// frame encoder and strict decoder, permessage-deflate inflater/deflaters with
// explicit history, close-code tables, handshake predicates and the receive
// model. It shares no code with the library under test.
package ref

import (
	"encoding/binary"
	"errors"
	"fmt"
)

// Opcodes (RFC 6455 §5.2).
const (
	OpCont   = 0x0
	OpText   = 0x1
	OpBinary = 0x2
	OpClose  = 0x8
	OpPing   = 0x9
	OpPong   = 0xA
)

// Frame is one WebSocket frame. Payload is always the unmasked application
// bytes; the encoder applies Key when Masked is set.
type Frame struct {
	Fin, Rsv1, Rsv2, Rsv3 bool
	Opcode                byte
	Masked                bool
	Key                   [4]byte
	Payload               []byte

	// Encoder-only knobs.
	LenBytes    int     // 0 = minimal encoding; 2 or 8 force the extended form
	DeclaredLen *uint64 // if set, written instead of len(Payload)
	// HideFrame: (harness, resolved before encoding) the bytes this frame's payload puts on the wire are themselves a
	// complete valid data frame for the receiving role - what a receiver that lost its place in the stream would read next.
	HideFrame bool

	// Decoder-only facts.
	HdrLen     int  // header bytes consumed
	NonMinimal bool // length was not minimally encoded
	Off        int  // offset of the frame in the parsed stream
	Truncated  bool // the stream ended inside this frame's payload (Payload = what arrived)
}

func (f Frame) IsControl() bool { return f.Opcode&0x8 != 0 }

// MaskBytes applies the RFC 6455 §5.3 transform in place, starting at key index pos.
func MaskBytes(b []byte, key [4]byte, pos int) {
	for i := range b {
		b[i] ^= key[(pos+i)&3]
	}
}

// Encode renders the frame.
func (f Frame) Encode() []byte {
	var b0 byte
	if f.Fin {
		b0 |= 0x80
	}
	if f.Rsv1 {
		b0 |= 0x40
	}
	if f.Rsv2 {
		b0 |= 0x20
	}
	if f.Rsv3 {
		b0 |= 0x10
	}
	b0 |= f.Opcode & 0x0f
	n := uint64(len(f.Payload))
	if f.DeclaredLen != nil {
		n = *f.DeclaredLen
	}
	out := []byte{b0}
	var mb byte
	if f.Masked {
		mb = 0x80
	}
	lb := f.LenBytes
	if lb == 0 {
		switch {
		case n <= 125:
			lb = 0
		case n <= 0xffff:
			lb = 2
		default:
			lb = 8
		}
	}
	if lb == 2 && n > 0xffff {
		lb = 8
	}
	switch lb {
	case 0:
		out = append(out, mb|byte(n))
	case 2:
		out = append(out, mb|126, byte(n>>8), byte(n))
	default:
		var t [8]byte
		binary.BigEndian.PutUint64(t[:], n)
		out = append(out, mb|127)
		out = append(out, t[:]...)
	}
	if f.Masked {
		out = append(out, f.Key[:]...)
		p := append([]byte(nil), f.Payload...)
		MaskBytes(p, f.Key, 0)
		out = append(out, p...)
	} else {
		out = append(out, f.Payload...)
	}
	return out
}

// ErrShort means the buffer ends inside a frame.
var ErrShort = errors.New("ref: incomplete frame")

// ErrHugeLen means a 64-bit length with the most significant bit set.
var ErrHugeLen = errors.New("ref: 64-bit length with top bit set")

// ParseHeader decodes one frame header from b. It returns the frame (without
// payload), the declared payload length and the header size.
func ParseHeader(b []byte) (f Frame, plen uint64, hdr int, err error) {
	if len(b) < 2 {
		return f, 0, 0, ErrShort
	}
	f.Fin = b[0]&0x80 != 0
	f.Rsv1 = b[0]&0x40 != 0
	f.Rsv2 = b[0]&0x20 != 0
	f.Rsv3 = b[0]&0x10 != 0
	f.Opcode = b[0] & 0x0f
	f.Masked = b[1]&0x80 != 0
	l7 := b[1] & 0x7f
	hdr = 2
	switch {
	case l7 < 126:
		plen = uint64(l7)
	case l7 == 126:
		if len(b) < 4 {
			return f, 0, 0, ErrShort
		}
		plen = uint64(binary.BigEndian.Uint16(b[2:4]))
		hdr = 4
		if plen < 126 {
			f.NonMinimal = true
		}
	default:
		if len(b) < 10 {
			return f, 0, 0, ErrShort
		}
		plen = binary.BigEndian.Uint64(b[2:10])
		hdr = 10
		if plen <= 0xffff {
			f.NonMinimal = true
		}
	}
	if f.Masked {
		if len(b) < hdr+4 {
			return f, 0, 0, ErrShort
		}
		copy(f.Key[:], b[hdr:hdr+4])
		hdr += 4
	}
	f.HdrLen = hdr
	if plen&(1<<63) != 0 {
		return f, plen, hdr, ErrHugeLen
	}
	return f, plen, hdr, nil
}

// ParseFrames decodes as many complete frames as b holds. rest is the
// unconsumed tail (an incomplete frame, or empty). A top-bit length stops the
// parse with ErrHugeLen.
func ParseFrames(b []byte) (frames []Frame, rest []byte, err error) {
	off := 0
	for len(b) > 0 {
		f, plen, hdr, e := ParseHeader(b)
		if e == ErrShort {
			return frames, b, nil
		}
		if e != nil {
			return frames, b, e
		}
		if uint64(len(b)-hdr) < plen {
			return frames, b, nil
		}
		p := append([]byte(nil), b[hdr:hdr+int(plen)]...)
		if f.Masked {
			MaskBytes(p, f.Key, 0)
		}
		f.Payload = p
		f.Off = off
		frames = append(frames, f)
		off += hdr + int(plen)
		b = b[hdr+int(plen):]
	}
	return frames, nil, nil
}

// Message is a reassembled data message.
type Message struct {
	Type       byte // OpText or OpBinary
	Payload    []byte
	Compressed bool // RSV1 on first frame (Payload already inflated by ValidateStream)
	Frames     int
	Raw        []byte // concatenated frame payloads before inflation
}

// StreamOpts tells the validator what was negotiated and who sent the stream.
type StreamOpts struct {
	FromClient bool // sender role
	Deflate    bool // permessage-deflate negotiated
	Takeover   bool // sender's direction keeps its LZ77 window across messages
}

// StreamReport is the strict validator's reconstruction of an emitted stream.
type StreamReport struct {
	Messages   []Message
	Pings      [][]byte
	Pongs      [][]byte
	Closes     [][]byte // payloads of Close frames in order
	AfterClose []Frame  // frames that follow the first Close frame
	Frames     int
	MaxFrames  int // frames of the longest message
	Rsv1Msgs   int
	Keys       [][4]byte
	Incomplete bool // stream ends inside a message or inside a frame
	WindowSlid bool
}

// ValidateStream strictly checks a complete emitted byte stream against RFC 6455
// (§5.1-5.5) and RFC 7692 and reconstructs what it carries. allowTrailingPartial
// permits an incomplete last frame (transport cut mid-frame).
func ValidateStream(b []byte, o StreamOpts, allowTrailingPartial bool) (*StreamReport, error) {
	rep := &StreamReport{}
	frames, rest, err := ParseFrames(b)
	if err != nil {
		return rep, err
	}
	if len(rest) > 0 {
		if !allowTrailingPartial {
			return rep, fmt.Errorf("stream ends inside a frame (%d trailing bytes)", len(rest))
		}
		rep.Incomplete = true
	}
	var inf *Inflater
	if o.Deflate {
		inf = NewInflater(o.Takeover)
	}
	var cur *Message
	closed := false
	for i, f := range frames {
		rep.Frames++
		where := fmt.Sprintf("frame %d (off %d, op %#x)", i, f.Off, f.Opcode)
		if closed {
			rep.AfterClose = append(rep.AfterClose, f)
		}
		if f.Masked != o.FromClient {
			return rep, fmt.Errorf("%s: masked=%v but sender is client=%v", where, f.Masked, o.FromClient)
		}
		if f.Masked {
			rep.Keys = append(rep.Keys, f.Key)
		}
		if f.NonMinimal {
			return rep, fmt.Errorf("%s: length %d not minimally encoded", where, len(f.Payload))
		}
		if f.Rsv2 || f.Rsv3 {
			return rep, fmt.Errorf("%s: RSV2/RSV3 set", where)
		}
		switch f.Opcode {
		case OpClose, OpPing, OpPong:
			if !f.Fin {
				return rep, fmt.Errorf("%s: fragmented control frame", where)
			}
			if len(f.Payload) > 125 {
				return rep, fmt.Errorf("%s: control payload %d > 125", where, len(f.Payload))
			}
			if f.Rsv1 {
				return rep, fmt.Errorf("%s: RSV1 on control frame", where)
			}
			switch f.Opcode {
			case OpClose:
				rep.Closes = append(rep.Closes, f.Payload)
				closed = true
			case OpPing:
				rep.Pings = append(rep.Pings, f.Payload)
			case OpPong:
				rep.Pongs = append(rep.Pongs, f.Payload)
			}
		case OpText, OpBinary:
			if cur != nil {
				return rep, fmt.Errorf("%s: new data frame inside an unfinished message", where)
			}
			if f.Rsv1 && !o.Deflate {
				return rep, fmt.Errorf("%s: RSV1 without negotiated permessage-deflate", where)
			}
			cur = &Message{Type: f.Opcode, Compressed: f.Rsv1}
		case OpCont:
			if cur == nil {
				return rep, fmt.Errorf("%s: continuation without an open message", where)
			}
			if f.Rsv1 {
				return rep, fmt.Errorf("%s: RSV1 on continuation frame", where)
			}
		default:
			return rep, fmt.Errorf("%s: reserved opcode", where)
		}
		if !f.IsControl() {
			cur.Raw = append(cur.Raw, f.Payload...)
			cur.Frames++
			if f.Fin {
				if cur.Compressed {
					rep.Rsv1Msgs++
					out, err := inf.Message(cur.Raw, 1<<28)
					if err != nil {
						return rep, fmt.Errorf("%s: compressed message does not inflate under takeover=%v: %w", where, o.Takeover, err)
					}
					cur.Payload = out
					if inf.Slid {
						rep.WindowSlid = true
					}
				} else {
					cur.Payload = cur.Raw
				}
				if cur.Frames > rep.MaxFrames {
					rep.MaxFrames = cur.Frames
				}
				rep.Messages = append(rep.Messages, *cur)
				cur = nil
			}
		}
	}
	if cur != nil {
		rep.Incomplete = true
	}
	return rep, nil
}
