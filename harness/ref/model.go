package ref

import (
	"encoding/binary"
	"fmt"
)

// Sendable reports whether a status code may appear in a Close frame
// (RFC 6455 §7.4.1, §7.4.2 and the IANA registry: 1000-1003, 1007-1014 are
// defined and sendable, 3000-4999 are for libraries/applications; 1004, 1005,
// 1006, 1015 are reserved and must not be sent; 0-999 are unused; 1016-2999 are
// reserved for future protocol revisions).
func Sendable(code int) bool {
	switch {
	case code >= 1000 && code <= 1003:
		return true
	case code >= 1007 && code <= 1014:
		return true
	case code >= 3000 && code <= 4999:
		return true
	}
	return false
}

// ClosePayload renders BE16(code) ‖ reason.
func ClosePayload(code int, reason string) []byte {
	p := make([]byte, 2+len(reason))
	binary.BigEndian.PutUint16(p, uint16(code))
	copy(p[2:], reason)
	return p
}

// ParseClose splits a close payload. ok is false for a malformed payload (one
// byte, or a code that may not appear on the wire). An empty payload is code
// 1005 (no status received).
func ParseClose(p []byte) (code int, reason string, ok bool) {
	if len(p) == 0 {
		return 1005, "", true
	}
	if len(p) == 1 {
		return 0, "", false
	}
	code = int(binary.BigEndian.Uint16(p))
	if !Sendable(code) {
		return code, "", false
	}
	return code, string(p[2:]), true
}

// RecvOpts describes the receiving endpoint (the library) for the model.
type RecvOpts struct {
	LibIsClient bool // the library is the client: inbound frames must be unmasked
	Deflate     bool // permessage-deflate negotiated
	Takeover    bool // the peer→library direction keeps its window
}

// RecvExpect is what a reference RFC 6455/7692 receiver does with a frame
// sequence.
type RecvExpect struct {
	Messages []Message // complete messages delivered, in order
	Pongs    [][]byte  // Pong payloads to send, in order
	// A valid Close frame was received: it must be echoed with the same payload
	// and surface as CloseError{Code, Reason}.
	GotClose    bool
	ClosePay    []byte
	CloseCode   int
	CloseReason string
	// First protocol violation, if any ("" = none). Nothing after it may be
	// delivered as a complete message.
	Violation      string
	ViolationFrame int
	// Bytes of the unfinished message's earlier fragments at the point where
	// the stream stopped (violation, Close or end of input): reads may have
	// streamed a prefix of this (uncompressed case only).
	Partial     []byte
	PartialOpen bool
	PartialComp bool
	// Unspecified is set when the stream reaches behaviour the property
	// excludes (non-minimal length, malformed DEFLATE): the comparison covers
	// only what came before.
	Unspecified      bool
	UnspecifiedWhy   string
	FramesConsidered int
}

// Receive runs the reference receiver over frames (as produced by the foreign
// encoder or parsed from raw bytes).
func Receive(frames []Frame, o RecvOpts) RecvExpect {
	var ex RecvExpect
	var inf *Inflater
	if o.Deflate {
		inf = NewInflater(o.Takeover)
	}
	var cur *Message
	pongsAtStart := 0
	// stopOpen records the unfinished message at the point the receiver stops.
	stopOpen := func() {
		if cur == nil {
			return
		}
		ex.PartialOpen, ex.Partial, ex.PartialComp = true, cur.Raw, cur.Compressed
		if cur.Compressed && !inf.PrefixOK(cur.Raw) {
			// the fragments received so far are already malformed DEFLATE: a
			// streaming receiver may have failed anywhere inside this message
			ex.Unspecified = true
			ex.UnspecifiedWhy = "malformed DEFLATE payload in an unfinished message"
			ex.Pongs = ex.Pongs[:pongsAtStart]
		}
	}
	viol := func(i int, s string, a ...any) RecvExpect {
		ex.Violation = fmt.Sprintf(s, a...)
		ex.ViolationFrame = i
		stopOpen()
		return ex
	}
	for i, f := range frames {
		ex.FramesConsidered = i + 1
		if f.NonMinimal {
			ex.Unspecified = true
			ex.UnspecifiedWhy = "non-minimal length encoding"
			stopOpen()
			return ex
		}
		if f.Rsv2 || f.Rsv3 {
			return viol(i, "RSV2/RSV3 set")
		}
		if f.Rsv1 {
			if !o.Deflate {
				return viol(i, "RSV1 without permessage-deflate")
			}
			if f.Opcode != OpText && f.Opcode != OpBinary {
				return viol(i, "RSV1 on opcode %#x", f.Opcode)
			}
		}
		switch f.Opcode {
		case OpCont, OpText, OpBinary, OpClose, OpPing, OpPong:
		default:
			return viol(i, "reserved opcode %#x", f.Opcode)
		}
		if f.Masked == o.LibIsClient {
			return viol(i, "wrong masking for role (masked=%v to client=%v)", f.Masked, o.LibIsClient)
		}
		if f.DeclaredLen != nil && *f.DeclaredLen&(1<<63) != 0 {
			return viol(i, "64-bit length with top bit set")
		}
		if f.Truncated && f.IsControl() && (f.DeclaredLen == nil || *f.DeclaredLen <= 125) && f.Fin {
			// stream ended inside a well-formed control frame: nothing happens
			stopOpen()
			return ex
		}
		if f.IsControl() {
			if len(f.Payload) > 125 || (f.DeclaredLen != nil && *f.DeclaredLen > 125) {
				return viol(i, "control frame longer than 125")
			}
			if !f.Fin {
				return viol(i, "fragmented control frame")
			}
			switch f.Opcode {
			case OpPing:
				ex.Pongs = append(ex.Pongs, f.Payload)
			case OpPong:
			case OpClose:
				code, reason, ok := ParseClose(f.Payload)
				if !ok {
					return viol(i, "malformed close payload (len %d, code %d)", len(f.Payload), code)
				}
				ex.GotClose = true
				ex.ClosePay = f.Payload
				ex.CloseCode = code
				ex.CloseReason = reason
				stopOpen()
				return ex
			}
			continue
		}
		switch f.Opcode {
		case OpText, OpBinary:
			if cur != nil {
				return viol(i, "new data frame inside unfinished message")
			}
			cur = &Message{Type: f.Opcode, Compressed: f.Rsv1}
			pongsAtStart = len(ex.Pongs)
		case OpCont:
			if cur == nil {
				return viol(i, "continuation without open message")
			}
		}
		cur.Raw = append(cur.Raw, f.Payload...)
		cur.Frames++
		if f.Truncated {
			stopOpen()
			return ex
		}
		if f.Fin {
			if cur.Compressed {
				out, err := inf.Message(cur.Raw, 1<<28)
				if err != nil {
					ex.Unspecified = true
					ex.UnspecifiedWhy = "malformed DEFLATE payload: " + err.Error()
					// a streaming inflater may fail anywhere inside the message, so
					// Pings interleaved with its fragments need not have been seen
					ex.Pongs = ex.Pongs[:pongsAtStart]
					ex.PartialOpen, ex.Partial, ex.PartialComp = true, cur.Raw, true
					return ex
				}
				cur.Payload = out
			} else {
				cur.Payload = cur.Raw
			}
			ex.Messages = append(ex.Messages, *cur)
			cur = nil
		}
	}
	stopOpen()
	return ex
}
