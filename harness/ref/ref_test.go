package ref

import (
	"bytes"
	"testing"

	"pgregory.net/rapid"
)

// The reference deflaters and inflater must agree with each other for every
// variant, with and without takeover (this is the oracle's own sanity check).
func TestDeflateInflateRoundTrip(t *testing.T) {
	rapid.Check(t, func(rt *rapid.T) {
		takeover := rapid.Bool().Draw(rt, "takeover")
		d := NewDeflater(takeover)
		in := NewInflater(takeover)
		n := rapid.IntRange(1, 6).Draw(rt, "n")
		for i := 0; i < n; i++ {
			var p []byte
			if rapid.Bool().Draw(rt, "random") {
				p = rapid.SliceOfN(rapid.Byte(), 0, 400).Draw(rt, "p")
			} else {
				p = bytes.Repeat([]byte("abcab"), rapid.IntRange(0, 9000).Draw(rt, "rep"))
			}
			v := DeflateVariant(rapid.IntRange(0, int(NumDeflateVariants)-1).Draw(rt, "v"))
			raw := d.Message(p, v)
			got, err := in.Message(raw, 1<<20)
			if err != nil || !bytes.Equal(got, p) {
				rt.Fatalf("variant %v takeover %v: err=%v len got %d want %d", v, takeover, err, len(got), len(p))
			}
		}
	})
}

func TestCraftBackref(t *testing.T) {
	hist := make([]byte, 32768)
	for i := range hist {
		hist[i] = byte(i*7 + i>>8)
	}
	for _, d := range []int{258, 259, 300, 1000, 4096, 20000, 32768} {
		in := &Inflater{Takeover: true, hist: hist}
		got, err := in.Message(CraftBackref(d), 1<<20)
		if err != nil || len(got) != 258 || !bytes.Equal(got, hist[len(hist)-d:len(hist)-d+258]) {
			t.Fatalf("distance %d: %d bytes, err %v", d, len(got), err)
		}
		empty := NewInflater(true)
		if got, err := empty.Message(CraftBackref(d), 1<<20); err == nil {
			t.Fatalf("distance %d with an empty window inflated to %d bytes without error", d, len(got))
		}
	}
}
