#!/bin/sh
# Builds the harness once, offline, so later checks only relink. Safe to re-run.
set -e
cd "$(dirname "$0")/harness"
export GOFLAGS=-mod=mod GOPROXY=off GOSUMDB=off GOTOOLCHAIN=local
[ -f go.sum ] || cp /repo/go.sum go.sum
mkdir -p ../.work
go1.26.8 test -c -tags verif -vet=off -o ../.work/setup.props.test ./props/
go1.26.8 test -c -race -tags verif -vet=off -o ../.work/setup.props.race.test ./props/
rm -f ../.work/setup.props.test ../.work/setup.props.race.test
echo setup ok
